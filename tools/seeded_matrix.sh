#!/usr/bin/env bash
# Runs every check (quick) against every seeded change and writes seeded/matrix.tsv
# (one line per seeded change: name, then the checks that exit 1).
set -u
ROOT="$(cd "$(dirname "${BASH_SOURCE[0]}")/.." && pwd)"
out="$ROOT/seeded/matrix.tsv"
names="${@:-$(ls "$ROOT/seeded" | grep -E '^C[0-9]+-')}"
for n in $names; do
	[ -f "$ROOT/seeded/$n/patch.diff" ] || continue
	git -C /repo diff --quiet || { echo "/repo dirty" >&2; exit 2; }
	git -C /repo apply "$ROOT/seeded/$n/patch.diff" || exit 2
	caught=""; broken=""
	for c in C01 C02 C03 C04 C05 C06 C07 C08 C09 C10 C11 C12 C13 C14 C15 C16 C17 C18 C19 C20; do
		"$ROOT/check" $c quick >/dev/null 2>&1; rc=$?
		if [ $rc -eq 1 ]; then caught="$caught $c"; elif [ $rc -ne 0 ]; then broken="$broken $c(exit$rc)"; fi
	done
	git -C /repo checkout -- . && git -C /repo clean -fdq crates src
	rm -rf "$ROOT"/replays/C[0-9][0-9]
	grep -v "^$n	" "$out" 2>/dev/null >"$out.tmp"; mv "$out.tmp" "$out" 2>/dev/null
	printf '%s\t%s\t%s\n' "$n" "${caught# }" "${broken# }" >>"$out"
	echo "$n caught_by:$caught machinery:$broken"
done
