#!/usr/bin/env bash
# tools/ingest.sh <Cxx> <round-letter> [extra checks...]
# Copies /tmp/wv-<Cxx>/DELIVERABLE into seeded/<Cxx>-<r>, verifies it in a scratch worktree and runs
# the as-built machinery (/tmp/verif-asbuilt, a worktree of /verif at the commit before the round)
# and then the current machinery against it. Patches /repo while it runs.
set -u
ROOT="$(cd "$(dirname "${BASH_SOURCE[0]}")/.." && pwd)"
c="$1"; r="$2"; shift 2
n="$c-$r"
mkdir -p "$ROOT/seeded/$n"
cp /tmp/wv-$c/DELIVERABLE/* "$ROOT/seeded/$n/" || exit 2
"$ROOT/tools/seeded.sh" verify "$n" | tail -3
git -C /repo diff --quiet || { echo "/repo dirty" >&2; exit 2; }
git -C /repo apply "$ROOT/seeded/$n/patch.diff" || exit 2
for chk in "$c" "$@"; do
	if [ -x /tmp/verif-asbuilt/check ]; then
		out="$(/tmp/verif-asbuilt/check "$chk" quick 2>/dev/null)"; rc=$?
		echo "AS-BUILT seeded=$n check=$chk exit=$rc $(echo "$out" | grep -E "^$chk quick" | sed 's/.*violations=/violations=/')"
	fi
	out="$("$ROOT/check" "$chk" quick 2>/dev/null)"; rc=$?
	echo "CURRENT  seeded=$n check=$chk exit=$rc $(echo "$out" | grep -E "^$chk quick" | sed 's/.*violations=/violations=/')"
	echo "$out" | grep -A3 "^violation:" | head -12
done
git -C /repo checkout -- . && git -C /repo clean -fdq crates src
rm -rf "$ROOT"/replays/C[0-9][0-9] /tmp/verif-asbuilt/replays/C[0-9][0-9]
