#!/usr/bin/env python3
"""Rewrites the final section of DESIGN.md ("Seeded changes and the checks that catch them")
from seeded/*/meta.json and seeded/matrix.tsv."""
import json, os
ROOT = os.path.dirname(os.path.dirname(os.path.abspath(__file__)))
base = os.path.join(ROOT, 'seeded')
rows = []
for name in sorted(os.listdir(base)):
    mp = os.path.join(base, name, 'meta.json')
    if os.path.exists(mp):
        rows.append((name, json.load(open(mp))))
matrix = {}
mt = os.path.join(base, 'matrix.tsv')
if os.path.exists(mt):
    for l in open(mt):
        parts = l.rstrip('\n').split('\t')
        if len(parts) >= 2:
            matrix[parts[0]] = parts[1]
def stats(suffix):
    ms = [m for n, m in rows if n.endswith(suffix)]
    missed = sum(1 for m in ms if m.get('detection', '').startswith(('MISSED', 'NOT DETECTED', 'NOT JUDGED')))
    return len(ms), missed
out = ["## Seeded changes and the checks that catch them\n\n",
 f"{len(rows)} changes written by independent sub-agents (rounds of twenty - one per property and round; from the fifth round on each agent was asked for two changes, kept as `-e`/`-f`, `-g`/`-h`, `-i`/`-j`, `-k`/`-l`, `-m`/`-n`, `-o`/`-p`, `-q`/`-r`, `-s`/`-t`; a last short round `-u` asked fourteen agents (C02-C04, C07-C09, C11-C16, C18, C20) for one change each under a 4- to 9-minute limit; its one miss (C04-u, caught by C11 only) was found in the last minutes and is recorded, not widened;\n"
 "later rounds were asked for deep triggers and for a mechanism different from the earlier ones).\n"
 "All were confirmed (`tools/seeded.sh verify`) to compile, to pass the repository's 82 unit tests and\n"
 "doc tests, and to fail their author's demonstration. \"own check\" is the quick check of the property\n"
 "the change was written against; \"all quick checks that alarm\" comes from `tools/seeded_matrix.sh`\n"
 "(`seeded/matrix.tsv`) where it has been run.\n\n"
 + "".join(f"Round `{sfx}`: {stats(sfx)[0]} changes, {stats(sfx)[0] - stats(sfx)[1]} caught as built, {stats(sfx)[1]} missed at first.\n" for sfx in ['-a', '-b', '-c', '-d', '-e', '-f', '-g', '-h', '-i', '-j', '-k', '-l', '-m', '-n', '-o', '-p', '-q', '-r', '-s', '-t', '-u'] if stats(sfx)[0])
 + "\nEach miss led to a widening of a check's domain or oracle (never to a special case for the seeded\n"
 "input), after which the change is caught and the unchanged tree is still silent. Exceptions, all recorded\n"
 "in the table: changes that really break another property than the one their author was given are caught\n"
 "by that property's check only (C19-d, -e, -g, -h, -l, -m; C01-j; C03-k; C02-n; C05-m; C10-n; C20-p; C10-r; C19-q; C19-r), and C19-n is not\n"
 "detected by design (it adds an inherent method and leaves the view that C19 speaks about intact).\n"
 "One miss is NOT closed: C04-u (found in the last minutes of the build time) breaks C04 through two edits on one `AuthorityMut` handle; C04's quick\n"
 "tier takes a fresh handle per authority step and stays silent, C11's one-handle histories report it. The widening owed is to run C04's authority steps one-handle as well.\n\n",
 "| seeded | change (what it needs to manifest) | own check | all quick checks that alarm |\n|---|---|---|---|\n"]
for name, m in rows:
    det = m.get('detection', 'caught as built')
    out.append(f"| {name} | {m['change']} ({m['needs_to_manifest']}) | {m['property']} - {det} | {matrix.get(name, '(not run)')} |\n")
p = os.path.join(ROOT, 'DESIGN.md')
s = open(p).read()
marker = "## Seeded changes and the checks that catch them"
if marker in s:
    s = s[:s.index(marker)]
open(p, 'w').write(s.rstrip('\n') + "\n\n" + "".join(out))
print(len(rows), "rows")
