#!/usr/bin/env bash
# Auxiliary audit, not a check: builds the harness with -C instrument-coverage (nightly, for its
# llvm-tools), runs every quick driver except C17 and lists the lines of /repo/crates/core/src that
# no driver executed. Scratch output under /tmp/verif-cov*, removed at the end. Takes ~1.5 h (the
# coverage counters are contended by the 16 worker threads).
set -eu
ROOT="$(cd "$(dirname "${BASH_SOURCE[0]}")/.." && pwd)"
B="$(dirname "$(rustup which --toolchain nightly rustc)")/../lib/rustlib/x86_64-unknown-linux-gnu/bin"
T=/tmp/verif-cov; R=/tmp/verif-covroot
trap 'rm -rf "$T" "$R"' EXIT
(cd "$ROOT/harness" && CARGO_TARGET_DIR=$T CARGO_NET_OFFLINE=true RUSTFLAGS="-C instrument-coverage" cargo +nightly build --release --offline >/dev/null 2>&1)
mkdir -p $R/prof && ln -sfn "$ROOT/spec" $R/spec && cp "$ROOT/known_findings.json" $R/
for i in $(seq -w 1 20); do
	c=C$i; [ $c = C17 ] && continue
	VERIF_ROOT=$R VERIF_REPO=/repo LLVM_PROFILE_FILE=$R/prof/$c-%p.profraw VERIF_WALL_S=900 $T/release/iref-mc $c quick | tail -1
done
"$B/llvm-profdata" merge -sparse $R/prof/*.profraw -o $R/all.profdata
"$B/llvm-cov" show $T/release/iref-mc -instr-profile=$R/all.profdata --ignore-filename-regex='(harness|registry|rustc|rustup)' --show-instantiations=false 2>/dev/null >$R/show.txt
python3 - "$R/show.txt" <<'PY'
import re, sys
cur = None
for l in open(sys.argv[1], errors='replace'):
    if l.startswith('/repo') and l.rstrip().endswith(':'):
        cur = l.strip(); continue
    m = re.match(r'\s*(\d+)\|\s*([^|]*)\|(.*)', l)
    if m and m.group(2).strip() == '0':
        print(f"{cur}{m.group(1)}: {m.group(3).rstrip()[:120]}")
PY
