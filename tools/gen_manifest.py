#!/usr/bin/env python3
"""Regenerates /verif/MANIFEST.json from the table below and validates it against the schema."""
import json, os, sys
ROOT = os.path.dirname(os.path.dirname(os.path.abspath(__file__)))

# id -> (technique, level text, level note, design ref)
CHECKS = {
 "C01": ("explicit reference automaton (minimal DFA compiled from the RFC ABNF) + complete W-method conformance suite replayed against the compiled recogniser; cold/warm automaton-cache configurations compared",
         "For each of the 20 validated types: every state and transition of the minimal reference DFA is covered and the complete Chow suite (S u S.B).Sigma^{<=m}.W (quick m=1 over the class alphabet, thorough m=1 over the boundary alphabet and m=2 over the class alphabet, plus every Unicode scalar out of every state) is replayed against the real constructor; language equality follows unless the compiled automaton has more than n+m states. All construction routes (borrowed/owned new, TryFrom, FromStr, from_vec, six serde visitor entry points, serde_json) are compared with the reference verdict on the m=0 suite, on all short byte strings and on ill-formed UTF-8 splices; identity of value/error payload with the input is observed on every trace; every conversion route between the eight reference / non-reference types is judged by the target type's reference DFA on RAW(n). The cold configuration regenerates every automaton from the grammar sources in a scratch copy and compares with the committed cache (suite replayed against the cold build if they differ).",
         "Trusted: /verif/spec transcription of the RFC grammars (cross-checked against a direct derivation matcher), the W-method theorem's state-bound premise, rustc/cargo. The implementation's automaton is not observable, hence black-box conformance.",
         "DESIGN.md section 6, C01"),
 "C02": ("exhaustive input-space sweep (all token strings up to a length bound + structured compositions) against an RFC 3986 Appendix B splitting model",
         "Every string of up to 7 (quick) / 8 (thorough) tokens over the seven bytes the scanners branch on plus class representatives, filtered by the reference DFA, and a structured product scheme x authority x path x query x fragment (IPv6, multi-byte text at every boundary); each through accessors, parts(), borrowed, owned, reference and non-reference types; every returned component re-validated by the library and by the reference DFA; recomposition must reproduce the text; an IRI sweep over characters whose UTF-8 bytes or code points are twins of the delimiters. The IRI half of the whole domain is run again as wide passes with its non-ASCII representative (2-byte U+00E9) replaced by a 4-byte (U+10000; quick and thorough) and a 3-byte (U+D7FF; thorough) character. Exhaustive inside the bound.",
         "Trusted: the 60-line Appendix-B splitting model, the reference DFAs from /verif/spec. Data independence of the scanners w.r.t. bytes outside ': / ? # @ [ ]' is re-checked with decoy bytes in thorough, not proved.",
         "DESIGN.md section 6, C02"),
 "C03": ("exhaustive input-space sweep (all authority token strings up to a length bound + user-info x host-kind x port product, stand-alone and embedded) against an RFC 3986 section 3.2 splitting model",
         "Every string of up to 7 (quick) / 8 (thorough) tokens over {a 1 : @ [ ] . %41 v (e-acute)} accepted by the reference authority DFA (this contains every IPv6/IPvFuture shape of that length combined with every user-info/port shape) plus the product of named user-info, host and port values, each stand-alone and embedded in three kinds of reference; delimiter twins for the IRI family. The IRI half of the whole domain is run again as wide passes with its non-ASCII representative (2-byte U+00E9) replaced by a 4-byte (U+10000; quick and thorough) and a 3-byte (U+D7FF; thorough) character. Exhaustive inside the bound.",
         "Trusted: the 30-line authority splitting model and the reference DFAs. Hosts longer than the token bound are represented by the named product only.",
         "DESIGN.md section 6, C03"),
 "C04": ("explicit-state breadth-first search over every safe mutator of every owned buffer type (transition = one real call on a real buffer; state = buffer text), invariant checked in every reached state",
         "From Default, from_scheme and ~3000 structured initial buffers per family, every sequence of up to 2 (quick) / 3 (thorough) calls drawn from ~90 operations (5 setters incl. removal and every value needing disambiguation, 6 path edits via path_mut, 3 authority edits via authority_mut, in-place resolve against 7 bases; PathBuf's own edits) on RiRefBuf, RiBuf and PathBuf of both families; in every reached state: no panic, UTF-8, accepted by the checked constructor of the same type and by the reference DFA, and all accessors executed. Every transition is executed on an exact-fit buffer, on a buffer with spare capacity and as the last step of its BFS history on ONE live buffer, with equal results demanded. A second pass starts from the constructor values only ('', 's:', '/') and goes one level deeper (every buffer that can be built from nothing by 3 / 4 safe calls). The IRI half of the whole domain is run again as wide passes with its non-ASCII representative (2-byte U+00E9) replaced by a 4-byte (U+10000; quick and thorough) and a 3-byte (U+D7FF; thorough) character. De-duplication on text is exact (no handle survives a transition).",
         "Trusted: the reference DFAs (validity oracle). Bounds: depth 2/3 from the initial set, texts cut at 40 bytes (counted), finite argument alphabet. Overflow checks are on (the configuration cargo test uses).",
         "DESIGN.md section 6, C04"),
 "C05": ("exhaustive sweep over (buffer, setter value) pairs against a frame model on the RFC 3986 decomposition",
         "Every structured buffer (scheme x authority x PATH(2) x query x fragment, delimiter-bearing and 40/600-byte tails, colon-first paths) x every value of the five setters incl. removal and longer/equal/shorter replacements, on RiRefBuf and RiBuf of both families, exact-fit and spare-capacity buffers, new values that equal the old one under == but not bytewise: the decomposition of the new text equals the old one with the targeted component replaced, up to the three documented path adjustments each accepted only under its documented precondition; result valid; accessors read back the same. The IRI half of the whole domain is run again as wide passes with its non-ASCII representative (2-byte U+00E9) replaced by a 4-byte (U+10000; quick and thorough) and a 3-byte (U+D7FF; thorough) character.",
         "Trusted: the Appendix-B splitting model and the frame oracle c05_frame_ok (40 lines).",
         "DESIGN.md section 6, C05"),
 "C06": ("exhaustive sweep over all (base, reference) pairs of a structured domain against a transcription of RFC 3986 5.2.2-5.2.4 + Errata 4547 + 5.3",
         "All pairs of ~450 (quick) / ~2200 (thorough) bases (with/without/empty authority; empty, absolute, rootless paths with dot, empty and colon segments; with/without query) and 3.5-25 k references covering every branch of RFC 5.2.2 (own scheme, own authority, empty path, absolute path, relative path) with any mixture of '.', '..', empty and ordinary segments, queries and fragments: both families, plus bases with fragments, paths beyond the 16-segment / 512-byte inline buffers and a sub-domain with '/' and '?' inside queries and fragments on both sides; resolved / resolve / into_resolved must agree; exact text equality with the RFC target when it re-parses to the same components; validity + RFC scheme/authority/query/fragment + unambiguous rendering of the RFC path otherwise; base unchanged. The IRI half of the whole domain is run again as wide passes with its non-ASCII representative (2-byte U+00E9) replaced by a 4-byte (U+10000; quick and thorough) and a 3-byte (U+D7FF; thorough) character.",
         "Trusted: the resolution model (model/resolve.rs, 120 lines), checked on every run against the 42 examples of RFC 3986 5.4.1/5.4.2 typed in from the RFC. Leniencies: ambiguous targets and relative targets starting with an empty segment are judged up to shielding/collapsing of leading empty segments (pinned by the repository's own test `../..//` -> `http:/`).",
         "DESIGN.md section 6, C06"),
 "C07": ("exhaustive sweep over all ordered pairs of per-type spelling domains against equality of a canonical form (RFC decomposition + dot-segment normalisation + percent-decoding to octets)",
         "For each of the 20 validated types a domain in which every abstract value has several spellings (A/%41, e-acute/%C3%A9/%c3%a9, a/b vs a/./b vs a/x/../b, 80/080, s/S, [::1]/[::01], empty vs absent, and ill-formed octets: %FF, overlong %C1%81, truncated %C3, surrogate %ED%A0%80); plus, systematically, every component text of <= 2 tokens over letters / encoded letters in both hex cases / literal and encoded delimiters / sub-delimiters around '/', PATH(2) (thorough PATH(3)) over segment spellings, reg-names that only decode to an IP literal or to authority delimiters, 16/17/18-segment paths and 70-byte components; ALL ordered pairs (20 M quick), borrowed and owned, == and !=, plus the 26 provided cross-type impls between Ri/RiRef/RiBuf/RiRefBuf; == must return, without panicking, exactly equality of the canonical form (hence reflexive, symmetric, transitive).",
         "Trusted: the canonical-form model (model/equiv.rs, 100 lines). The domains are finite spelling sets; text outside them is represented by class.",
         "DESIGN.md section 6, C07"),
 "C08": ("exhaustive sweep over all ordered pairs (and all triples of a class-complete sub-domain) of the C07 spelling domains for Eq/Ord/Hash coherence, plus Borrow-contract and collection-lookup checks per value",
         "On all ordered pairs of the C07 domains: equal values hash identically (fixed-key FNV hasher, a chunk-sensitive hasher and DefaultHasher), cmp == Equal exactly when ==, partial_cmp == Some(cmp), antisymmetry, symmetry of ==, owned results identical to borrowed, cross-type partial_cmp identical; transitivity of cmp on all triples of a sub-domain holding two members of every class; for every URI/IRI: hash equality through every Borrow view (RiBuf->Ri->RiRef, Uri->Iri/IriRef) insert-then-lookup in HashSet/BTreeSet through each view and in collections holding the whole domain; the URI and the IRI view of the same text must compare, order and hash identically on every ordered pair.",
         "Trusted: std's Hash/Ord contracts as the oracle; no particular order is demanded, only coherence.",
         "DESIGN.md section 6, C08"),
 "C09": ("exhaustive input-space sweep of all paths up to a segment bound (+ inline-buffer threshold paths), stand-alone and embedded in every kind of reference, against a stack-walk model cross-checked with a literal RFC 3986 5.2.4 transcription",
         "Every path over the structural segment alphabet up to 6 (quick) / 8 (thorough) segments and over the full alphabet up to 4/5, plus paths of 15..40 segments and 510..2000 bytes; for each: the normalized-segment iterator (both directions, length), the normalized copy (RFC rendering incl. trailing slash, idempotence), in-place normalisation stand-alone, and embedded in 12 reference contexts with frame check (scheme, authority, query, fragment unchanged, text valid); spare-capacity buffers, a re-used handle (normalize, edit, normalize) and, for the IRI family, the handle built by the public unsafe PathMut::new over the raw buffer must give the same text. The IRI half of the whole domain is run again as wide passes with its non-ASCII representative (2-byte U+00E9) replaced by a 4-byte (U+10000; quick and thorough) and a 3-byte (U+D7FF; thorough) character. Exhaustive inside the bound.",
         "Trusted: the stack-walk model (30 lines) and its agreement with the literal 5.2.4 algorithm on absolute paths (checked on 5460 paths by selftest); rendering rules of DESIGN 5.3 (legal '.' shield, [\"\"] identified with the empty list unless shielded).",
         "DESIGN.md section 6, C09"),
 "C10": ("explicit-state breadth-first search over the real path mutators (transition = one real PathMut/PathBuf call; state = path text in a fixed reference context), lock-step list model, one-handle vs fresh-handle vs stand-alone differential",
         "From every PATH(2) initial state in 8 (quick) / 14 (thorough) reference contexts of both families, every sequence of push/pop/clear/symbolic_push/symbolic_append/normalize up to depth 2 (quick) / 3 (thorough) over the core argument alphabet; each transition executed four ways (fresh handle, the raw-buffer handle of iri::PathMut::new, as the last call of the whole history through ONE handle, stand-alone PathBuf), on exact-fit and spare-capacity buffers, and judged against the list model from the observed previous state; frame (scheme/authority/query/fragment), validity and handle view checked in every state; violating states are not expanded. Thorough adds a depth-4 pass over the core alphabet. The IRI half of the whole domain is run again as wide passes with its non-ASCII representative (2-byte U+00E9) replaced by a 4-byte (U+10000; quick and thorough) and a 3-byte (U+D7FF; thorough) character.",
         "Trusted: the list model of model/pathops.rs with its stated leniencies (shield readings; symbolic '.'/'..' may or may not leave a trailing empty segment; an empty segment pushed symbolically onto a segment-less path may be skipped). Paths longer than 40 bytes are cut and counted.",
         "DESIGN.md section 6, C10"),
 "C11": ("explicit-state breadth-first search to fixpoint over the real authority editor (transition = one real AuthorityMut call; state = authority text in a fixed context), record model in lock-step, one-handle vs fresh-handle differential",
         "All states reachable from the product user-info x host-kind x port under set_userinfo/set_host/set_port with absent, empty, shorter, equal-length, longer, IP-literal and multi-byte arguments, in seven reference contexts (incl. an empty path directly followed by a query / fragment holding '@' ':' '/'), both families, RiBuf and RiRefBuf: the search runs until no new state appears, so every (state, operation) pair of the closed state space is executed, on a fresh handle, on a handle built by the public unsafe AuthorityMut::new over the raw buffer, and as the last call of a history through ONE handle, and the handle is read (as_authority, Deref, into_authority) after each call. Because the handle's window is determined by (buffer, view) and both are compared with the model after every step, covering all states covers all call sequences. The IRI half of the whole domain is run again as wide passes with its non-ASCII representative (2-byte U+00E9) replaced by a 4-byte (U+10000; quick and thorough) and a 3-byte (U+D7FF; thorough) character.",
         "Trusted: the record model {userinfo, host, port} + untouched rest (20 lines). The argument alphabet is finite (19-26 values); text outside it is represented by class.",
         "DESIGN.md section 6, C11"),
 "C12": ("exhaustive input-space sweep (all paths up to a segment bound x all next/next_back interleavings) against a '/'-split list model",
         "Every path text over a structural segment alphabet up to 6 (quick) / 8 (thorough) segments, both families, with every path query, the type constants, every interleaving of front/back iteration two steps past exhaustion and the derived iterator methods (nth, last, count, size_hint, rev, fold, len) from every cursor state, plus regular schedules on paths of 16..40 segments, compared with a list model derived from the text. Exhaustive inside the bound; the scanners branch only on '/', so the bound covers every code path several times over. The IRI half of the whole domain is run again as wide passes with its non-ASCII representative (2-byte U+00E9) replaced by a 4-byte (U+10000; quick and thorough) and a 3-byte (U+D7FF; thorough) character.",
         "Trusted: the '/'-split list model (20 lines), the reference path DFA from /verif/spec deciding domain membership, rustc. Not covered: paths with more segments than the bound (except that iteration code has no length-dependent branch).",
         "DESIGN.md section 6, C12"),
 "C13": ("exhaustive sweep of every conversion between the eight URI/IRI types on all short IRI references (judged by the reference URI grammars) + differential execution of both front-ends on the same ASCII inputs",
         "Conversions: every valid IRI reference of up to 6 (quick) / 7 (thorough) tokens incl. non-ASCII text and of the structured domain (1.9 M texts) through all 60 as_*/into_*/try_into_*/TryFrom/From routes: success exactly when the reference URI / URI-reference DFA accepts the text (resp. a scheme is present), bytes (and pointer, for borrowed forms) preserved, failures return the original value, unchecked upcasts re-validate. Differential: for every URI-valid member of the structured domain the URI and the IRI front-end must produce identical observations for all read accessors, 35 mutations (setters, path edits, authority edits, resolve) and, on all ordered pairs of a sub-domain (incl. paths whose byte order differs from their segment order), ==/cmp/hash/resolve/relative_to/suffix; AsRef upcasts included.",
         "Trusted: reference DFAs for URI / URI-reference; the differential half has no model at all (one front-end is the other's oracle), so a defect present identically in both is invisible to it - C02-C12, C15, C16 cover that.",
         "DESIGN.md section 6, C13"),
 "C14": ("exhaustive sweep of every textual route out on a class-complete set of valid values per type, and of every route in on the complete W-method m=0 suite per type",
         "For each of the 20 types: every accepting trace of the class-alphabet conformance suite plus every spelling of C07's domains through 20 routes out (Display, Debug, as_str, as_bytes, AsRef<str>/<[u8]>, to_owned, Clone, into_bytes, From<Buf> for String, serde_json string and value serialisers, serialise->deserialise, text after ==/cmp/hash), borrowed and owned; comparison with plain strings (all str/String/[u8] impls) against every spelling must be plain text equality; const-generic byte-array comparisons likewise; every suite trace (valid and invalid) through every route in must be accepted exactly when `validate` accepts it; every conversion route between the eight reference / non-reference types (TryFrom, From, as_*, into_*, try_into_*) on every valid IRI reference of RAW(5|6) must accept exactly what the target grammar accepts and keep the text.",
         "Trusted: rustc-generated code is exercised per type and route, so a wrong per-type derive option is visible; the suite is complete for automata with at most n states over the class alphabet.",
         "DESIGN.md section 6, C14"),
 "C15": ("exhaustive sweep over all ordered pairs (a, b) of a structured URI/IRI domain: relative_to, then the library's own resolution, compared with a by the reference equivalence",
         "All ordered pairs over scheme {s,t} x authority {none, empty, h, g} x PATH(2) (quick, 1.2 M pairs) / PATH(3) with dot, colon and multi-byte segments (thorough, ~50 M pairs) x query x fragment, both families, plus paths beyond 16 segments and all ordered pairs of a second domain of authority spellings (u@h / u%40h, h:80 / h%3A80, [::1] / %5B%3A%3A1%5D, h / H / %68, s / S): no panic, result is a valid reference, inputs unchanged, both entry points agree, and result.resolved(b) is equal to a (library == where the strict model says equal; reference equivalence up to the [\"\"]/[] identification, to collapsing of leading empty segments without authority, and to a's own RFC normal form). The IRI half of the whole domain is run again as wide passes with its non-ASCII representative (2-byte U+00E9) replaced by a 4-byte (U+10000; quick and thorough) and a 3-byte (U+D7FF; thorough) character.",
         "Trusted: the resolution and equivalence models shared with C06/C07. The leniencies are exactly the corners where RFC dot-segment removal cannot reproduce a (a kept trailing '..', a lone empty segment, a leading empty segment without authority).",
         "DESIGN.md section 6, C15"),
 "C16": ("exhaustive sweep over all ordered (value, prefix) pairs of path and reference domains, and over all short references for base(), against the normalised-segment prefix model",
         "Path::suffix on all ordered pairs PATH(3) x PATH(2) (quick) / PATH(4) x PATH(3) (thorough) over {'' . .. a b a:b %61 %FF}: Some exactly when same absoluteness and the prefix's normalised decoded segments lead the value's; the returned path renders the remaining segments; pushing them onto the prefix gives a path == the original. Ri/RiRef::suffix on all ordered pairs of ~1500 references (equal / different / case-different scheme, equal/different authority incl. %-spellings and u@h vs u%40h): gate, own query/fragment, agreement of entry points. base() on every valid reference of RAW(6)/RAW(7) (1.1 M texts) and of the reference domain: text up to and including the last '/' of the path, valid, no query/fragment. The IRI half of the whole domain is run again as wide passes with its non-ASCII representative (2-byte U+00E9) replaced by a 4-byte (U+10000; quick and thorough) and a 3-byte (U+D7FF; thorough) character.",
         "Trusted: the decomposition, path-list and equivalence models.",
         "DESIGN.md section 6, C16"),
 "C17": ("program enumeration: every program 'one macro invocation on one string literal' of a finite literal set compiled by the real rustc with the real proc-macro; acceptance set vs the run-time parser and the reference DFA; accepted constants compared with the run-time parse in an executed program",
         "For the four macros, literals = transition cover (every state, every transition over the class alphabet) of the reference DFA of the macro's type continued by characterisation suffixes, plus literals that need escaping in Rust source ({ } # quote backslash, control characters, non-ASCII, bidi controls), each in up to six spellings (minimal escapes, raw, raw with hashes, every character as \\u{..}, ASCII as \\xNN, backslash-newline continuation), and every %XX literal also with lower-case hex digits: 86 k programs quick. One `cargo check --message-format=json` of a file holding every invocation gives the macro's acceptance set; it must equal the run-time parser's (and the reference grammar's); a second program holding every accepted invocation is built and RUN, comparing text, the five components and == of each constant with the run-time parse of the same string.",
         "Trusted: rustc/cargo reporting each compile_error! at its invocation line; the literal set is complete for the transition structure, not for all strings (C01 ties the run-time parser to the RFC for all strings). Non-literal macro arguments are outside the quantifier.",
         "DESIGN.md section 6, C17"),
 "C18": ("exhaustive sweep of all short token sequences (as byte strings) through both data-URL constructors and all views, with an independent RFC 4648 decoder and a hang watchdog",
         "All sequences of up to 5 (quick) / 6 (thorough) tokens over 21 tokens (data:, dat, :, ',', ;, base64, 'base64,', 'BASE64,', bAse64, a, /, #, ?, %41, %, =, A, space, QQ==, +, raw non-ASCII bytes), plus media types of 244..65536 bytes: 4.3 M byte strings quick; constructors, string routes and serde routes agree; acceptance implies validity under the reference URI DFA and the data-URL shape; for every accepted value borrowed, owned and owned-through-Deref views and every AsRef / Borrow / Deref / as_uri view coincide, the stand-alone parts parser agrees, accessors equal parts(), the parts reassemble the text, decoded data equals the independent decoder's (or the raw data bytes when not base64); a watchdog reports a case that does not terminate within 20 s.",
         "Trusted: the 40-line RFC 4648 decoder and the weak shape model; the reference URI DFA.",
         "DESIGN.md section 6, C18"),
 "C19": ("exhaustive sweep over all short %XX token sequences (every class of the UTF-8 decoding automaton) in every percent-decodable component, against an octet-level decoding model",
         "All sequences of up to 3 (quick) / 4 (thorough) tokens over 21-22 tokens covering ASCII, literal non-ASCII, continuation bytes low/high, overlong leads C0/C1/E0, 2/3/4-byte leads, surrogate lead ED A0, beyond-range F4 90 / F5, FF, %2F, %25, for Segment, Host, UserInfo, Query, Fragment of both families, stand-alone and obtained from a parsed URI/IRI incl. IP-literal and IPv4 hosts: bytes() equals the model's octets, and chars/len/decode/== str/Deref/into_pct_string terminate and yield the UTF-8 text of well-formed octets and never equate ill-formed octets with well-formed text.",
         "Trusted: the octet decoder of model/equiv.rs. Two known findings rooted in the pct-str / utf8-decode dependencies are listed in known_findings.json with matchers pinned to the panic site pct-str-2.0.0/src/lib.rs:200 and to the (operation, ill-formed octets, wrong value) signature; any other violation still exits 1.",
         "DESIGN.md section 6, C19"),
 "C20": ("exhaustive sweep of all short references (+ inputs far larger than any inline buffer) under a counting global allocator and pointer-range monitor",
         "Every valid reference of up to 6 (quick) / 7 (thorough) tokens and of the structured domain, both families (2.8 M inputs quick), plus 17/40-segment and 600/5000-byte inputs incl. 2-, 3- and 4-byte characters: about 50 probes per input - heap allocation count across new, validate, every component accessor, parts(), full forward and backward segment iteration, first/last/file_name/directory/parent/parent_or_empty, base, authority accessors and parts, component constructors; every returned slice must lie inside the caller's input (or be one of the constants \"\", \"/\", \"/./\"); the parsed value must be exactly the input slice; scheme < authority < path < query < fragment by address, disjoint; accessors and parts() must point at the same bytes. The IRI half of the whole domain is run again as wide passes with its non-ASCII representative (2-byte U+00E9) replaced by a 4-byte (U+10000; quick and thorough) and a 3-byte (U+D7FF; thorough) character.",
         "Trusted: the counting allocator (per-thread counter of alloc/alloc_zeroed/realloc) and pointer arithmetic in the harness. Stack usage and reads are not observed.",
         "DESIGN.md section 6, C20"),
}

def load_props():
    out = []
    with open(os.path.join(ROOT, "properties.jsonl")) as f:
        for l in f:
            l = l.strip()
            if l:
                out.append(json.loads(l))
    return out

NOT_BUILT_REASON = "check not built yet in this round (in progress; see DESIGN.md section 13 build order) - not a statement that the technique cannot apply"

def main():
    props = load_props()
    na_file = os.path.join(ROOT, "tools", "not_applicable.json")
    na_extra = json.load(open(na_file)) if os.path.exists(na_file) else {}
    checks = []
    na = []
    for p in props:
        pid = p["id"]
        if pid in CHECKS:
            tech, text, note, ref = CHECKS[pid]
            checks.append({
                "property_id": pid,
                "quick_cmd": f"./check {pid} quick",
                "thorough_cmd": f"./check {pid} thorough",
                "evidence_file": f"/verif/evidence/{pid}.json",
                "replay_cmd_template": f"./check {pid} --replay {{path}}",
                "engine": "iref-mc",
                "level_claimed": {"category": "model_checking", "text": text, "design_ref": ref},
                "level_note": note,
                "technique": tech,
            })
        else:
            na.append({"property_id": pid, "reason": na_extra.get(pid, NOT_BUILT_REASON)})
    m = {
        "version": 1,
        "setup_cmd": "./check setup",
        "hooks": {
            "guard": "--cfg iref_verif",
            "enable": "no hooks are needed: every observation is available through the public API; the harness path-depends on /repo and rebuilds it from the working tree",
            "baseline_off_cmd": "cd /repo && cargo test --workspace --no-fail-fast --offline",
            "source_commits": [],
            "add_only": True,
        },
        "engines": [{
            "name": "iref-mc",
            "path": "harness/",
            "serves_properties": sorted(CHECKS.keys()),
            "kind_free_text": "hand-written Rust explorer (odometer enumeration, explicit-state BFS over the real mutators, W-method conformance suites) linked against /repo's working tree",
        }],
        "checks": checks,
        "not_applicable": na,
        "notes": "All checks are bounded exhaustive enumerations run on the real library code; see DESIGN.md. Exit 0 held / 1 VIOLATION / 2 machinery failure.",
    }
    if not na:
        del m["not_applicable"]
    path = os.path.join(ROOT, "MANIFEST.json")
    with open(path, "w") as f:
        json.dump(m, f, indent=1)
        f.write("\n")
    try:
        import jsonschema
        jsonschema.validate(m, json.load(open("/root/.vp/MANIFEST.schema.json")))
        print("MANIFEST.json valid,", len(checks), "checks,", len(na), "not_applicable")
    except ImportError:
        print("jsonschema not available; wrote MANIFEST.json unvalidated")

if __name__ == "__main__":
    main()
