#!/usr/bin/env bash
# tools/ingest2.sh copy|verify|run <Cxx> <name-suffix> <deliverable-subdir> [extra checks...]
#   copy:   /tmp/wv-<Cxx>/DELIVERABLE/<subdir> -> seeded/<Cxx>-<suffix>
#   verify: tools/seeded.sh verify (scratch worktree; does not touch /repo)
#   run:    apply to /repo, run as-built (/tmp/verif-asbuilt) and current quick checks, undo
set -u
ROOT="$(cd "$(dirname "${BASH_SOURCE[0]}")/.." && pwd)"
mode="$1"; c="$2"; sfx="$3"; sub="${4:-}"; shift 4 || true
n="$c-$sfx"
case "$mode" in
copy)
	mkdir -p "$ROOT/seeded/$n"
	cp /tmp/wv-$c/DELIVERABLE/$sub/patch.diff /tmp/wv-$c/DELIVERABLE/$sub/demo_*.rs /tmp/wv-$c/DELIVERABLE/$sub/NOTES.md "$ROOT/seeded/$n/" || exit 2
	;;
verify)
	"$ROOT/tools/seeded.sh" verify "$n" | grep -E "^(name=|VERIFIED|NOT-VERIFIED)"
	;;
run)
	git -C /repo diff --quiet || { echo "/repo dirty" >&2; exit 2; }
	git -C /repo apply "$ROOT/seeded/$n/patch.diff" || exit 2
	for chk in "$c" "$@"; do
		out="$(/tmp/verif-asbuilt/check "$chk" quick 2>/dev/null)"; rc=$?
		echo "AS-BUILT seeded=$n check=$chk exit=$rc $(echo "$out" | grep -E "^$chk quick" | sed 's/.*violations=/violations=/')"
		echo "$out" | grep -A3 "^violation:" | head -8
	done
	git -C /repo checkout -- . && git -C /repo clean -fdq crates src
	rm -rf /tmp/verif-asbuilt/replays/C[0-9][0-9]
	;;
esac
