#!/usr/bin/env python3
"""Rewrites the measured-bounds table of DESIGN.md (between the bounds-table markers) from
evidence/runs/<id>.<tier>.json, i.e. from what the checks themselves measured."""
import json, os, re
ROOT = os.path.dirname(os.path.dirname(os.path.abspath(__file__)))

def human(n):
    for unit, d in (("G", 1e9), ("M", 1e6), ("k", 1e3)):
        if n >= d:
            return f"{n / d:.1f} {unit}"
    return str(n)

def cell(p):
    if not os.path.exists(p):
        return "not run yet"
    d = json.load(open(p))
    c = d["coverage"]
    b = c.get("bounds")
    bs = "; ".join(f"{k}={json.dumps(v)}" for k, v in sorted(b.items())) if isinstance(b, dict) else ""
    caps = c.get("caps_hit") or []
    s = f"{human(c['evaluations'])} evaluations, {human(c.get('states', 0))} states, {human(c.get('transitions', 0))} transitions, {d['wall_s']:.0f} s"
    if bs:
        s += f" ({bs})"
    if caps:
        s += " CAPS: " + "; ".join(caps)
    elif c.get("exhaustive"):
        s += ", domain completed"
    return s.replace("|", "\\|")

rows = ["| id | quick | thorough |", "|---|---|---|"]
for i in range(1, 21):
    pid = f"C{i:02d}"
    rows.append(f"| {pid} | {cell(f'{ROOT}/evidence/runs/{pid}.quick.json')} | {cell(f'{ROOT}/evidence/runs/{pid}.thorough.json')} |")
table = "\n".join(rows)
p = f"{ROOT}/DESIGN.md"
s = open(p).read()
pat = re.compile(r"(<!-- bounds-table:begin -->\n).*?(<!-- bounds-table:end -->)", re.S)
assert pat.search(s), "markers missing"
s = pat.sub(lambda m: m.group(1) + table + "\n" + m.group(2), s)
open(p, "w").write(s)
print("bounds table rewritten")
