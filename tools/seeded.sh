#!/usr/bin/env bash
# Helper for seeded (deliberately property-breaking) changes kept under /verif/seeded/<name>/.
#   tools/seeded.sh verify <name>            confirm in a scratch worktree: compiles, suite passes, demo fails with / passes without
#   tools/seeded.sh run <name> <Cxx> [...]   apply to /repo, run the named checks (quick), undo, print verdicts
set -u
ROOT="$(cd "$(dirname "${BASH_SOURCE[0]}")/.." && pwd)"
REPO=/repo
name="${2:?name}"
dir="$ROOT/seeded/$name"
[ -f "$dir/patch.diff" ] || { echo "no $dir/patch.diff" >&2; exit 2; }
case "${1:-}" in
verify)
	wt="/tmp/seeded-verify-$$"
	trap 'git -C "$REPO" worktree remove --force "$wt" >/dev/null 2>&1; rm -rf "$wt"' EXIT
	git -C "$REPO" worktree add -q --detach "$wt" HEAD || exit 2
	export CARGO_TARGET_DIR="$wt/target" CARGO_NET_OFFLINE=true
	demo="$(ls "$dir"/demo_*.rs | head -1)"
	t="$(basename "$demo" .rs)"
	git -C "$wt" apply "$dir/patch.diff" || { echo "patch does not apply"; exit 2; }
	( cd "$wt" && cargo test --workspace --offline >"$wt/suite.log" 2>&1 ); suite=$?
	mkdir -p "$wt/tests" && cp "$demo" "$wt/tests/"
	( cd "$wt" && cargo test --offline --features serde,data,macros --test "$t" >"$wt/demo_with.log" 2>&1 ); with=$?
	git -C "$wt" apply -R "$dir/patch.diff" || { echo "patch does not revert"; exit 2; }
	( cd "$wt" && cargo clean --offline -p iref-core >/dev/null 2>&1; cargo test --offline --features serde,data,macros --test "$t" >"$wt/demo_without.log" 2>&1 ); without=$?
	unit="$(grep -E '^test result: .* [0-9]+ passed' "$wt/suite.log" | head -3 | tr '\n' ' ')"
	echo "name=$name suite_exit=$suite demo_without_change_exit=$without demo_with_change_exit=$with"
	echo "suite: $unit"
	if [ $suite -eq 0 ] && [ $without -eq 0 ] && [ $with -ne 0 ]; then echo "VERIFIED"; exit 0; else echo "NOT-VERIFIED"; tail -5 "$wt/demo_with.log"; exit 1; fi
	;;
run)
	shift 2
	git -C "$REPO" diff --quiet || { echo "/repo has uncommitted changes" >&2; exit 2; }
	git -C "$REPO" apply "$dir/patch.diff" || exit 2
	for c in "$@"; do
		out="$("$ROOT/check" "$c" quick 2>/dev/null)"; rc=$?
		nv=$(echo "$out" | grep -c '^VIOLATION')
		echo "seeded=$name check=$c exit=$rc violation_lines=$nv $(echo "$out" | grep -E "^$c quick" | sed 's/.*violations=/violations=/')"
	done
	git -C "$REPO" checkout -- . && git -C "$REPO" clean -fdq crates src
	rm -rf "$ROOT"/replays/C[0-9][0-9]
	;;
*) echo "usage: seeded.sh verify|run <name> [checks]" >&2; exit 2 ;;
esac
