#!/usr/bin/env bash
# Warm the build cache of the generated macro-program project (dev-profile build of iref with
# the `macros` feature) so that the first quick run does not pay for it.
set -u
ROOT="$(cd "$(dirname "${BASH_SOURCE[0]}")/.." && pwd)"
export VERIF_ROOT="$ROOT" CARGO_TARGET_DIR="${CARGO_TARGET_DIR:-$ROOT/target}" CARGO_NET_OFFLINE=true
tmp="$(mktemp -d)"
trap 'rm -rf "$tmp"' EXIT
# run with a private VERIF_ROOT copy of what the binary reads, so that no evidence is written
mkdir -p "$tmp/spec" && cp "$ROOT"/spec/* "$tmp/spec/" && cp "$ROOT/known_findings.json" "$tmp/" 2>/dev/null
mkdir -p "$tmp/harness" && cp "$ROOT/harness/Cargo.lock" "$tmp/harness/" 2>/dev/null
VERIF_ROOT="$tmp" VERIF_C17_WARM=1 "$CARGO_TARGET_DIR/release/iref-mc" C17 quick >/dev/null 2>"$CARGO_TARGET_DIR/c17-setup.log" || { echo "MACHINERY-ERROR: C17 warm-up failed" >&2; tail -n 20 "$CARGO_TARGET_DIR/c17-setup.log" >&2; exit 2; }
exit 0
