#!/usr/bin/env bash
# C01 driver. Two configurations of "what language is accepted":
#   warm = what cargo builds from /repo (cached automata/*.aut.cbor)
#   cold = what the sources say (automata regenerated from grammar + entry points)
# The cold configuration is built in a scratch copy outside /repo and /verif, which is removed
# on every exit path. If every regenerated automaton is byte-identical to the committed one,
# the warm suite covers both configurations (generation is deterministic); otherwise the suite
# is replayed against a harness built on the scratch copy as well.
set -u
ROOT="$(cd "$(dirname "${BASH_SOURCE[0]}")/.." && pwd)"
REPO="${VERIF_REPO:-/repo}"
TARGET="${CARGO_TARGET_DIR:-$ROOT/target}"
BIN="$TARGET/release/iref-mc"
export CARGO_NET_OFFLINE=true CARGO_TERM_COLOR=never
SCR="/tmp/iref-verif-cold-$(id -u)"

cleanup() { rm -rf "$SCR"; }
trap cleanup EXIT

cold_env() {
	# same flags as the harness profile so that the compiled proc-macro dependencies are shared
	export CARGO_TARGET_DIR="$TARGET"
	export CARGO_PROFILE_RELEASE_BUILD_OVERRIDE_OPT_LEVEL=3
}

regenerate() {
	mkdir -p "$TARGET"
	exec 8>"$TARGET/.cold.lock"
	flock 8
	rm -rf "$SCR"
	mkdir -p "$SCR"
	rsync -a --exclude target --exclude .git "$REPO/" "$SCR/repo/" || return 2
	rm -rf "$SCR/repo/crates/core/automata"
	(
		cold_env
		cd "$SCR/repo" || exit 2
		cargo clean --release --offline -p iref-core >/dev/null 2>&1
		cargo check --release --offline -p iref-core >"$TARGET/cold-build.log" 2>&1
	) || { echo "MACHINERY-ERROR: cold regeneration build failed (see $TARGET/cold-build.log)" >&2; tail -n 20 "$TARGET/cold-build.log" >&2; return 2; }
	return 0
}

build_cold_harness() {
	# harness sources, re-pointed at the scratch copy
	rm -rf "$SCR/harness"
	cp -r "$ROOT/harness" "$SCR/harness" || return 2
	sed -i "s#path = \"/repo\"#path = \"$SCR/repo\"#" "$SCR/harness/Cargo.toml"
	(
		export CARGO_TARGET_DIR="$SCR/target"
		cd "$SCR/harness" && cargo build --release --offline >"$TARGET/cold-harness-build.log" 2>&1
	) || { echo "MACHINERY-ERROR: cold harness build failed (see $TARGET/cold-harness-build.log)" >&2; tail -n 20 "$TARGET/cold-harness-build.log" >&2; return 2; }
	return 0
}

if [ "${1:-}" = "--replay" ]; then
	file="${2:?replay file}"
	if grep -q '"config": *"cold"' "$file"; then
		regenerate || exit 2
		build_cold_harness || exit 2
		VERIF_C01_CONFIG=cold VERIF_ROOT="$ROOT" "$SCR/target/release/iref-mc" C01 --replay "$file"
		exit $?
	fi
	exec "$BIN" C01 --replay "$file"
fi

tier="${1:-quick}"
regenerate || exit 2
nfiles=$(find "$SCR/repo/crates/core/automata" -type f 2>/dev/null | wc -l)
ncommitted=$(find "$REPO/crates/core/automata" -type f 2>/dev/null | wc -l)
difflist=$(diff -rq "$REPO/crates/core/automata" "$SCR/repo/crates/core/automata" 2>&1 | sed "s#$SCR/repo/##g; s#$REPO/##g" | tr '\n' ';')
cold_rc=0
if [ -z "$difflist" ]; then
	export VERIF_C01_COLD="byte-identical: all $nfiles regenerated automata equal the $ncommitted committed cache files; the warm suite covers both configurations"
else
	echo "C01: regenerated automata differ from the committed cache: $difflist" >&2
	build_cold_harness || exit 2
	mkdir -p "$SCR/out"
	cp "$ROOT/known_findings.json" "$SCR/out/" 2>/dev/null
	mkdir -p "$SCR/out/spec" && cp "$ROOT"/spec/* "$SCR/out/spec/"
	VERIF_C01_CONFIG=cold VERIF_ROOT="$SCR/out" "$SCR/target/release/iref-mc" C01 "$tier" >"$SCR/out/cold.out" 2>"$SCR/out/cold.err"
	cold_rc=$?
	if [ $cold_rc -gt 1 ]; then
		cat "$SCR/out/cold.err" >&2
		echo "MACHINERY-ERROR: cold suite run failed with status $cold_rc" >&2
		exit 2
	fi
	grep -v '^VIOLATION' "$SCR/out/cold.out" | sed 's/^/[cold] /'
	sed 's/^/[cold] /' "$SCR/out/cold.err" >&2
	nviol=0
	if [ -d "$SCR/out/replays/C01" ]; then
		mkdir -p "$ROOT/replays/C01"
		for f in "$SCR/out/replays/C01"/*.json; do
			[ -f "$f" ] || continue
			cp "$f" "$ROOT/replays/C01/cold-$(basename "$f")"
			echo "VIOLATION property=C01 replay=$ROOT/replays/C01/cold-$(basename "$f")"
			nviol=$((nviol + 1))
		done
	fi
	export VERIF_C01_COLD="differs: $difflist cold suite replayed against a build from regenerated automata: $nviol violation signature(s)"
fi
"$BIN" C01 "$tier"
warm_rc=$?
if [ $warm_rc -gt 2 ]; then
	echo "MACHINERY-ERROR: explorer exited with status $warm_rc" >&2
	exit 2
fi
if [ $warm_rc -eq 2 ]; then exit 2; fi
if [ $warm_rc -eq 1 ] || [ $cold_rc -eq 1 ]; then exit 1; fi
exit 0
