#!/usr/bin/env bash
# Prime the build cache used by the cold-cache comparison (proc-macro dependencies of the
# scratch workspace share flags with the harness profile).
set -u
ROOT="$(cd "$(dirname "${BASH_SOURCE[0]}")/.." && pwd)"
REPO="${VERIF_REPO:-/repo}"
TARGET="${CARGO_TARGET_DIR:-$ROOT/target}"
SCR="/tmp/iref-verif-cold-setup-$(id -u)"
trap 'rm -rf "$SCR"' EXIT
rm -rf "$SCR" && mkdir -p "$SCR"
rsync -a --exclude target --exclude .git "$REPO/" "$SCR/repo/" || exit 2
(
	export CARGO_TARGET_DIR="$TARGET" CARGO_NET_OFFLINE=true CARGO_PROFILE_RELEASE_BUILD_OVERRIDE_OPT_LEVEL=3
	cd "$SCR/repo" && cargo check --release --offline -p iref-core >"$TARGET/cold-setup.log" 2>&1
) || { echo "MACHINERY-ERROR: cold setup build failed" >&2; tail -n 20 "$TARGET/cold-setup.log" >&2; exit 2; }
exit 0
