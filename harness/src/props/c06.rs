//! C06 driver: all (base, reference) pairs of a structured domain.

use crate::by_family;
use crate::engine::{run_shards, Ctx, Report, Violation};
use crate::fam::{Family, Kind};
use crate::model::{domains, resolve, syntax, FamRefs, Refs};
use serde_json::{json, Value};

pub fn bases(f: Family, fr: &FamRefs, n: usize) -> Vec<Vec<u8>> {
	let segs: Vec<Vec<u8>> = ["", ".", "..", "a", "b:c"].iter().map(|s| domains::b(s)).collect();
	let paths = domains::paths(&segs, n);
	let auths = vec![None, Some(domains::b("")), Some(domains::b("h"))];
	let _ = f;
	// a base may carry a fragment: it never reaches the target (T.fragment = R.fragment)
	domains::references(&[Some(domains::b("s"))], &auths, &paths, &[None, Some(domains::b("")), Some(domains::b("q"))], &[None, Some(domains::b("bf"))])
		.into_iter()
		.map(|(t, _)| t)
		.filter(|t| fr.valid(Kind::Ri, t))
		.collect()
}

pub fn refs_domain(f: Family, fr: &FamRefs, n: usize) -> Vec<Vec<u8>> {
	// "%2E%2E": an ordinary segment that only DECODES to ".."
	let mut segs: Vec<Vec<u8>> = ["", ".", "..", "g", "%2E%2E", "..."].iter().map(|s| domains::b(s)).collect();
	if f == Family::Iri {
		segs.push(domains::b("é"));
	}
	let paths = domains::paths(&segs, n);
	let auths = vec![None, Some(domains::b("")), Some(domains::b("g"))];
	domains::references(
		&[None, Some(domains::b("t"))],
		&auths,
		&paths,
		&[None, Some(domains::b("")), Some(domains::b("y"))],
		&[None, Some(domains::b("s"))],
	)
	.into_iter()
	.map(|(t, _)| t)
	.filter(|t| fr.valid(Kind::RiRef, t))
	.collect()
}

pub fn run(ctx: &Ctx) -> Report {
	let refs = Refs::new(&ctx.root);
	if let Err(e) = resolve::selfcheck() {
		panic!("resolution model self-check failed: {e}");
	}
	let mut total = Report::new();
	total.rule = "all pairs (base, reference): bases = s x {no authority, empty authority, h} x PATH(n) over {'' . .. a b:c} x {no query, '', q}; references = {no scheme, t} x {no authority, '', g} x PATH(m) over {'' . .. g %2E%2E ... (é)} x {no query, '', y} x {no fragment, s} (every RFC 5.2.2 branch), plus plain references with PATH(m+1) over {'' . .. g}, long paths and a sub-domain with '/', '?' and ':' inside queries and fragments on both sides; each through resolved / resolve / into_resolved and compared with a transcription of RFC 3986 5.2.2-5.2.4 + Errata 4547 + 5.3 (itself checked against the 42 examples of RFC 5.4); non-trivial = distinct pair".into();
	let (bn, rn) = ctx.pick((2usize, 3usize), (3usize, 4usize));
	for f in Family::active() {
		let fr = FamRefs::new(refs, f);
		let mut bs = bases(f, &fr, bn);
		let mut rs = refs_domain(f, &fr, rn);
		// beyond the 16-segment / 512-byte inline buffers
		for lp in domains::long_paths(true) {
			for pre in ["s://h", "s:"] {
				let mut t = pre.as_bytes().to_vec();
				t.extend_from_slice(&lp);
				bs.push(t);
			}
		}
		for lp in domains::long_paths(false).into_iter().chain(domains::long_paths(true)) {
			rs.push(lp.clone());
			let mut t = b"../../".to_vec();
			t.extend_from_slice(&lp);
			if !lp.starts_with(b"/") {
				rs.push(t);
			}
			let mut u = b"t:".to_vec();
			u.extend_from_slice(&lp);
			rs.push(u);
		}
		// delimiters of an EARLIER component inside a later one ('/' and '?' in queries and
		// fragments, on either side): component boundaries must come from the RFC split, not from
		// a search for the first '?' or the last '/'
		let o = |x: &[Option<&str>]| -> Vec<Option<Vec<u8>>> { x.iter().map(|s| s.map(domains::b)).collect() };
		let pv = |x: &[&str]| -> Vec<Vec<u8>> { x.iter().map(|s| domains::b(s)).collect() };
		bs.extend(
			domains::references(&o(&[Some("s")]), &o(&[None, Some("h")]), &pv(&["", "/a/b", "a/b", "/"]), &o(&[None, Some("q/../x"), Some("q?x"), Some("t=1:30")]), &o(&[None, Some("bf?x/.."), Some("b:f")]))
				.into_iter()
				.map(|(t, _)| t),
		);
		rs.extend(
			domains::references(&o(&[None]), &o(&[None]), &pv(&["", "g", "../g", "/g", "."]), &o(&[None, Some("y/../z?"), Some("y:z"), Some("t=12:30")]), &o(&[None, Some("s?x"), Some("s/../x"), Some("t=1:30"), Some("a:b")]))
				.into_iter()
				.map(|(t, _)| t),
		);
		// runs of empty segments next to dot segments, one segment longer than the main domain (a
		// target path may start with SEVERAL empty segments); plain references, with and without scheme
		{
			let structural: Vec<Vec<u8>> = ["", ".", "..", "g"].iter().map(|s| domains::b(s)).collect();
			for p in domains::paths(&structural, rn + 1) {
				if p.split(|c| *c == b'/').count() < rn + 1 + usize::from(p.starts_with(b"/")) {
					continue;
				}
				rs.push(p.clone());
				let mut t = b"t:".to_vec();
				t.extend_from_slice(&p);
				rs.push(t);
			}
		}
		bs.sort();
		bs.dedup();
		rs.sort();
		rs.dedup();
		bs.retain(|t| fr.valid(Kind::Ri, t));
		rs.retain(|t| fr.valid(Kind::RiRef, t));
		total.count(&format!("{}_bases", f.name()), bs.len() as u64);
		total.count(&format!("{}_references", f.name()), rs.len() as u64);
		let shards = 128usize;
		let r = run_shards(ctx, shards, |si| {
			let mut r = Report::new();
			let mut vs = Vec::new();
			for (i, b) in bs.iter().enumerate() {
				if i % shards != si {
					continue;
				}
				r.states += 1;
				let bp = syntax::split(b);
				for rf in &rs {
					let n = by_family!(f, c06_case(b, rf, &fr, &mut vs));
					r.evaluations += n;
					r.transitions += n;
					let t = resolve::resolve(&bp, &syntax::split(rf));
					r.count(&format!("branch_{}", t.branch.name()), 1);
					if !resolve::unambiguous(&t.parts) {
						r.count("ambiguous_targets", 1);
					}
					if t.errata_territory {
						r.count("errata_territory_pairs", 1);
					}
					if r.transitions % 150001 == 1 {
						r.sample(by_family!(f, c06_input(b, rf)));
					}
					for v in vs.drain(..) {
						r.violate(v);
					}
				}
				if ctx.out_of_time() {
					r.cap("wall clock reached");
					break;
				}
			}
			r.distinct_nontrivial = r.transitions;
			r.traces = r.transitions;
			r
		});
		total.merge(r);
	}
	total.info.insert("bounds".into(), json!({"base_path_segments_max": bn, "reference_path_segments_max": rn}));
	total
}

pub fn replay(ctx: &Ctx, _check: &str, input: &Value) -> Vec<Violation> {
	let refs = Refs::new(&ctx.root);
	match super::input_family(input) {
		Some(f) => {
			let fr = FamRefs::new(refs, f);
			by_family!(f, c06_replay(input, &fr))
		}
		None => vec![],
	}
}
