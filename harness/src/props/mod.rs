use crate::engine::{Ctx, Report, Violation};
use serde_json::Value;

pub mod c01;
pub mod c02;
pub mod c04;
pub mod c05;
pub mod c06;
pub mod c07;
pub mod c09;
pub mod c10;
pub mod c11;
pub mod c12;
pub mod c13;
pub mod c14;
pub mod c15;
pub mod c17;
pub mod c18;
pub mod c19;
pub mod c20;

pub struct Prop {
	pub id: &'static str,
	pub run: fn(&Ctx) -> Report,
	pub replay: fn(&Ctx, &str, &Value) -> Vec<Violation>,
}

pub static PROPS: &[Prop] = &[
	Prop { id: "C01", run: c01::run, replay: c01::replay },
	Prop { id: "C02", run: c02::run, replay: c02::replay },
	Prop { id: "C03", run: c02::run_c03, replay: c02::replay_c03 },
	Prop { id: "C04", run: c04::run, replay: c04::replay },
	Prop { id: "C05", run: c05::run, replay: c05::replay },
	Prop { id: "C06", run: c06::run, replay: c06::replay },
	Prop { id: "C07", run: c07::run_c07, replay: c07::replay_c07 },
	Prop { id: "C08", run: c07::run_c08, replay: c07::replay_c08 },
	Prop { id: "C09", run: c09::run, replay: c09::replay },
	Prop { id: "C10", run: c10::run, replay: c10::replay },
	Prop { id: "C11", run: c11::run, replay: c11::replay },
	Prop { id: "C12", run: c12::run, replay: c12::replay },
	Prop { id: "C13", run: c13::run, replay: c13::replay },
	Prop { id: "C14", run: c14::run, replay: c14::replay },
	Prop { id: "C15", run: c15::run_c15, replay: c15::replay_c15 },
	Prop { id: "C16", run: c15::run_c16, replay: c15::replay_c16 },
	Prop { id: "C17", run: c17::run, replay: c17::replay },
	Prop { id: "C18", run: c18::run, replay: c18::replay },
	Prop { id: "C19", run: c19::run, replay: c19::replay },
	Prop { id: "C20", run: c20::run, replay: c20::replay },
];

pub fn find(id: &str) -> Option<&'static Prop> {
	PROPS.iter().find(|p| p.id == id)
}

/// family named in a replay input
pub fn input_family(v: &Value) -> Option<crate::fam::Family> {
	crate::fam::Family::parse(v["fam"].as_str()?)
}
