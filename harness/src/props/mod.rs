use crate::engine::{Ctx, Report, Violation};
use serde_json::Value;

pub mod c01;
pub mod c02;
pub mod c04;
pub mod c05;
pub mod c06;
pub mod c07;
pub mod c09;
pub mod c10;
pub mod c11;
pub mod c12;
pub mod c13;
pub mod c14;
pub mod c15;
pub mod c17;
pub mod c18;
pub mod c19;
pub mod c20;

pub struct Prop {
	pub id: &'static str,
	pub run: fn(&Ctx) -> Report,
	pub replay: fn(&Ctx, &str, &Value) -> Vec<Violation>,
}

pub static PROPS: &[Prop] = &[
	Prop { id: "C01", run: c01::run, replay: c01::replay },
	Prop { id: "C02", run: c02::run, replay: c02::replay },
	Prop { id: "C03", run: c02::run_c03, replay: c02::replay_c03 },
	Prop { id: "C04", run: c04::run, replay: c04::replay },
	Prop { id: "C05", run: c05::run, replay: c05::replay },
	Prop { id: "C06", run: c06::run, replay: c06::replay },
	Prop { id: "C07", run: c07::run_c07, replay: c07::replay_c07 },
	Prop { id: "C08", run: c07::run_c08, replay: c07::replay_c08 },
	Prop { id: "C09", run: c09::run, replay: c09::replay },
	Prop { id: "C10", run: c10::run, replay: c10::replay },
	Prop { id: "C11", run: c11::run, replay: c11::replay },
	Prop { id: "C12", run: c12::run, replay: c12::replay },
	Prop { id: "C13", run: c13::run, replay: c13::replay },
	Prop { id: "C14", run: c14::run, replay: c14::replay },
	Prop { id: "C15", run: c15::run_c15, replay: c15::replay_c15 },
	Prop { id: "C16", run: c15::run_c16, replay: c15::replay_c16 },
	Prop { id: "C17", run: c17::run, replay: c17::replay },
	Prop { id: "C18", run: c18::run, replay: c18::replay },
	Prop { id: "C19", run: c19::run, replay: c19::replay },
	Prop { id: "C20", run: c20::run, replay: c20::replay },
];

pub fn find(id: &str) -> Option<&'static Prop> {
	PROPS.iter().find(|p| p.id == id)
}

/// family named in a replay input
pub fn input_family(v: &Value) -> Option<crate::fam::Family> {
	crate::fam::Family::parse(v["fam"].as_str()?)
}

/// Sub-domain for the depth-2 call-history pass of main.rs: (check, replay input) of cases whose
/// subject is a pure function of its input. References over few tokens with authorities and
/// segments of several lengths, so that offsets remembered from one text fall on delimiters of
/// another.
pub fn history_domain(id: &str, ctx: &Ctx) -> Vec<(String, Value)> {
	use crate::engine::bytes_json;
	use crate::fam::{Family, Kind};
	use crate::model::{domains, Refs};
	use serde_json::json;
	if !matches!(id, "C02" | "C03" | "C12" | "C20") || domains::wide() != 0 {
		return vec![];
	}
	let refs = Refs::new(&ctx.root);
	let o = |x: &[Option<&str>]| -> Vec<Option<Vec<u8>>> { x.iter().map(|s| s.map(domains::b)).collect() };
	let pv = |x: &[&str]| -> Vec<Vec<u8>> { x.iter().map(|s| domains::b(s)).collect() };
	let paths = pv(&["", "/", "/a", "/a/bb", "//a", "/bb/a", "a/bb", "bb"]);
	let texts: Vec<Vec<u8>> = domains::references(&o(&[None, Some("s")]), &o(&[None, Some(""), Some("h"), Some("hhh")]), &paths, &o(&[None, Some("q/r")]), &o(&[None, Some("f")]))
		.into_iter()
		.map(|(t, _)| t)
		.filter(|t| {
			let p = crate::model::syntax::split(t);
			p.query.is_some() == p.fragment.is_some()
		})
		.collect();
	let mut out = Vec::new();
	for f in Family::active() {
		for t in &texts {
			if !refs.valid(f, Kind::RiRef, t) {
				continue;
			}
			match id {
				"C02" => out.push(("decompose".to_string(), json!({"fam": f.name(), "text": bytes_json(t)}))),
				"C20" => out.push(("".to_string(), json!({"fam": f.name(), "text": bytes_json(t)}))),
				"C03" => {
					if crate::model::syntax::split(t).authority.is_some() {
						out.push(("authority".to_string(), json!({"fam": f.name(), "text": bytes_json(t), "embedded": true})));
					}
				}
				_ => {}
			}
		}
		if id == "C12" {
			for p in &paths {
				if refs.valid(f, Kind::Path, p) {
					out.push(("".to_string(), json!({"fam": f.name(), "path": bytes_json(p)})));
				}
			}
		}
	}
	out
}
