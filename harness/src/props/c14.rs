//! C14 driver: routes out on valid values, routes in on the small conformance suites.

use crate::by_family;
use crate::engine::{run_shards, Ctx, Report, Violation};
use crate::fam::{validated_types, Family, Kind};
use crate::model::wmethod::{syms_to_bytes, Suite};
use crate::model::Refs;
use serde_json::{json, Value};

fn bytes_ty(f: Family, k: Kind) -> bool {
	f == Family::Uri || matches!(k, Kind::Scheme | Kind::Port)
}

/// valid values per type: the accepting traces of the class-alphabet m = 0 suite plus the C07
/// spelling domain (texts that `==` between values would merge)
pub fn values(f: Family, k: Kind, refs: &Refs, level: u8) -> (Vec<Vec<u8>>, Vec<Vec<u8>>) {
	let d = refs.dfa(f, k);
	let bt = bytes_ty(f, k);
	let suite = Suite::new(&d, false);
	let mut valid = Vec::new();
	let mut all = Vec::new();
	let mut buf = Vec::new();
	for (syms, acc) in suite.small_suite() {
		// the out-routes need UTF-8 text: byte types restricted to ASCII-compatible traces
		syms_to_bytes(&syms, bt, &mut buf);
		all.push(buf.clone());
		if acc && std::str::from_utf8(&buf).is_ok() {
			valid.push(buf.clone());
		}
	}
	// in-strings with a special scalar (white space trim() strips, BOM, bidi / zero-width controls,
	// block boundaries) first, last and in the middle
	if !bt {
		for x in crate::model::domains::boundary_and_special_scalars() {
			for tpl in ["X", "Xa", "aX", "aXa", "s:X", "Xs:a", "//X", "/X", "?X", "#X"] {
				all.push(tpl.replace('X', &x.to_string()).into_bytes());
			}
		}
	}
	valid.extend(super::c07::domain(f, k, refs, level));
	valid.sort();
	valid.dedup();
	all.sort();
	all.dedup();
	(valid, all)
}

pub fn run(ctx: &Ctx) -> Report {
	let refs = Refs::new(&ctx.root);
	let mut total = Report::new();
	total.rule = "per type (20): valid values = accepting traces of the class-alphabet m=0 W-method suite + the spelling domain of C07; per value every route out (Display, Debug, as_str, as_bytes, AsRef, to_owned, Clone, into_bytes, From, serde_json string/value, serialise->deserialise, text after ==/cmp/hash) and comparison with plain strings against every spelling; routes in: every trace of the suite (valid and invalid) through every construction route, compared with `validate`; plus every conversion route between the eight reference / non-reference types on every valid IRI reference of RAW(n); non-trivial = distinct (type, text)".into();
	let level = ctx.pick(0u8, 1u8);
	for (f, k) in validated_types() {
		let (valid, all) = values(f, k, refs, level);
		let spell = super::c07::domain(f, k, refs, 0);
		total.count(&format!("{}_{}_valid_values", f.name(), k.name()), valid.len() as u64);
		total.count(&format!("{}_{}_in_strings", f.name(), k.name()), all.len() as u64);
		let shards = 32usize;
		let r = run_shards(ctx, shards, |si| {
			let mut r = Report::new();
			let mut vs = Vec::new();
			for (i, t) in valid.iter().enumerate() {
				if i % shards != si {
					continue;
				}
				r.states += 1;
				r.evaluations += by_family!(f, c14_value_case(k, t, &spell, &mut vs));
				if i % 1777 == 5 {
					r.sample(by_family!(f, c14_input(k, t)));
				}
				for v in vs.drain(..) {
					r.violate(v);
				}
			}
			for (i, t) in all.iter().enumerate() {
				if i % shards != si {
					continue;
				}
				r.states += 1;
				r.evaluations += by_family!(f, c14_in_case(k, t, &mut vs));
				for v in vs.drain(..) {
					r.violate(v);
				}
			}
			r
		});
		total.merge(r);
		if ctx.out_of_time() {
			total.cap(format!("wall clock reached after {}::{}", f.name(), k.name()));
			break;
		}
	}
	// routes in BETWEEN the reference and non-reference types of both families (TryFrom / From /
	// as_* / into_* / try_into_*): they build a value without running its parser, so what they
	// accept is compared with the target type's reference DFA, and the text must be kept
	{
		use crate::model::{domains, ref_valid, syntax, FamRefs};
		let fr_uri = FamRefs::new(refs, Family::Uri);
		let alpha = domains::raw_alphabet(Family::Iri, 0);
		let d = refs.dfa(Family::Iri, Kind::RiRef);
		let n = ctx.pick(5usize, 6usize);
		let r = run_shards(ctx, domains::raw_shard_count(alpha.len()), |si| {
			let mut r = Report::new();
			let mut vs = Vec::new();
			domains::for_each_raw(&alpha, n, si, |t| {
				if !ref_valid(&d, Family::Iri, Kind::RiRef, t) {
					return;
				}
				r.states += 1;
				r.evaluations += super::c13::conv_case_for("C14", t, fr_uri.valid(Kind::Ri, t), fr_uri.valid(Kind::RiRef, t), syntax::split(t).scheme.is_some(), &mut vs);
				for v in vs.drain(..) {
					r.violate(v);
				}
			});
			r
		});
		total.count("cross_type_route_inputs", r.states);
		total.merge(r);
		let fr_iri = FamRefs::new(refs, Family::Iri);
		let mut r = Report::new();
		let mut vs = Vec::new();
		for t in domains::special_scalar_texts() {
			if !fr_iri.valid(Kind::RiRef, &t) {
				continue;
			}
			r.states += 1;
			r.evaluations += super::c13::conv_case_for("C14", &t, fr_uri.valid(Kind::Ri, &t), fr_uri.valid(Kind::RiRef, &t), syntax::split(&t).scheme.is_some(), &mut vs);
			for v in vs.drain(..) {
				r.violate(v);
			}
		}
		total.count("special_scalar_texts", r.states);
		total.merge(r);
	}
	total.distinct_nontrivial = total.states;
	total.transitions = total.evaluations;
	total.traces = total.states;
	total.info.insert("bounds".into(), json!({"alphabet_level": level}));
	total
}

pub fn replay(ctx: &Ctx, check: &str, input: &Value) -> Vec<Violation> {
	let refs = Refs::new(&ctx.root);
	if check == "conversion" {
		let mut out = Vec::new();
		if let Some(t) = crate::engine::json_bytes(&input["text"]) {
			let fr_uri = crate::model::FamRefs::new(refs, Family::Uri);
			super::c13::conv_case_for("C14", &t, fr_uri.valid(Kind::Ri, &t), fr_uri.valid(Kind::RiRef, &t), crate::model::syntax::split(&t).scheme.is_some(), &mut out);
		}
		return out;
	}
	let k = match input["kind"].as_str().and_then(Kind::parse) {
		Some(k) => k,
		None => return vec![],
	};
	match super::input_family(input) {
		Some(f) => {
			let spell = super::c07::domain(f, k, refs, 0);
			by_family!(f, c14_replay(check, input, &spell))
		}
		None => vec![],
	}
}
