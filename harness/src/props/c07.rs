//! C07 / C08 drivers: all ordered pairs (and triples of a sub-domain) of spelling domains.

use crate::by_family;
use crate::engine::{run_shards, Ctx, Report, Violation};
use crate::fam::{validated_types, Family, Kind};
use crate::model::{domains, syntax, Refs};
use serde_json::{json, Value};

fn v(xs: &[&str]) -> Vec<Vec<u8>> {
	xs.iter().map(|s| domains::b(s)).collect()
}
fn ov(xs: &[Option<&str>]) -> Vec<Option<Vec<u8>>> {
	xs.iter().map(|s| s.map(domains::b)).collect()
}

/// Spellings of percent-encodable text: several spellings of the same abstract value, plus
/// ill-formed octet patterns.
pub fn pct_spellings(f: Family, level: u8) -> Vec<Vec<u8>> {
	let mut x = vec!["", "A", "%41", "a", "%61", "%C3%A9", "%c3%a9", "%FF", "%C1%81", "%C3", "%ED%A0%80", "%25", "%2541", "B",
		// triplets that differ in the case of the SECOND hex digit only, and their literal twin
		"%4A", "%4a", "J", "%4B"];
	if f == Family::Iri {
		x.extend(["é", "e\u{301}"]);
	}
	if level >= 1 {
		x.extend(["%E2%82%AC", "%F0%9F%98%80", "%F4%90%80%80", "%80", "A%FF", "%41%41", "AA", "%e2%82%ac"]);
		if f == Family::Iri {
			x.extend(["\u{20AC}", "\u{1F600}"]);
		}
	}
	v(&x)
}

/// Paths with 16 / 17 / 18 segments and equivalent spellings with dot segments (the
/// normalised-segment iterator spills to the heap beyond 16 segments).
pub fn long_paths() -> Vec<Vec<u8>> {
	let mut out = Vec::new();
	for n in [16usize, 17, 18] {
		let base: Vec<String> = (0..n).map(|i| format!("s{i}")).collect();
		let plain = base.join("/");
		for abs in ["", "/"] {
			out.push(format!("{abs}{plain}"));
			out.push(format!("{abs}{plain}/."));
			out.push(format!("{abs}{plain}/x/.."));
			out.push(format!("{abs}./{plain}"));
			out.push(format!("{abs}{plain}/"));
			let mut enc = base.clone();
			enc[n - 1] = format!("%73{}", n - 1);
			out.push(format!("{abs}{}", enc.join("/")));
		}
	}
	out.into_iter().map(|s| s.into_bytes()).collect()
}

/// Tokens for systematic products of component text: letters in both cases and their encoded
/// spellings (hex digits in both cases), ill-formed octets, every delimiter of the surrounding
/// syntax literally and encoded, sub-delimiters on both sides of '/' in byte order.
pub fn component_tokens(f: Family, level: u8) -> Vec<Vec<u8>> {
	let mut x = vec!["A", "a", "%41", "%4A", "%4a", "%C3%A9", "%c3%a9", "%FF", "-", ".", "%2E", ":", "%3A", "@", "%40", "/", "%2F", "[", "%5B", "+"];
	if level >= 1 {
		x.extend(["%61", "J", "%C3", "!", "?", "%3F", "]", "%5D", "%25", "%2B", "1", "%2e", "~"]);
	}
	if f == Family::Iri {
		x.push("é");
		if level >= 1 {
			x.push("\u{10000}");
		}
	}
	v(&x)
}

/// All texts of at most two tokens.
fn products2(toks: &[Vec<u8>]) -> Vec<Vec<u8>> {
	let mut out = vec![Vec::new()];
	for a in toks {
		out.push(a.clone());
		for b in toks {
			let mut t = a.clone();
			t.extend_from_slice(b);
			out.push(t);
		}
	}
	out
}

pub fn domain(f: Family, k: Kind, refs: &Refs, level: u8) -> Vec<Vec<u8>> {
	let sp = pct_spellings(f, level);
	let mut out: Vec<Vec<u8>> = match k {
		Kind::Scheme => v(&["s", "S", "t", "s1", "s+", "http", "HTTP"]),
		// ports on both sides of u16 and with fewer / more digits (numeric order != text order)
		Kind::Port => v(&["", "8", "80", "080", "0", "00", "65535", "9", "10", "65536", "70000", "100000", "443"]),
		Kind::Segment => {
			let mut x = sp.clone();
			x.extend(v(&[".", "..", "%2E", "%2e%2e", "a:b", "a%3Ab", "@"]));
			x
		}
		Kind::UserInfo => {
			let mut x = sp.clone();
			x.extend(v(&["u:p", "u%3Ap", ":", "%3A"]));
			x
		}
		Kind::Host => {
			let mut x = sp.clone();
			x.extend(v(&["h", "H", "%68", "[::1]", "[::01]", "[::0:1]", "1.2.3.4", "01.2.3.4", "a.b", "a%2Eb", "[v1.a]"]));
			// a reg-name that only DECODES to an IP literal / to text with authority delimiters
			x.extend(v(&["%5B%3A%3A1%5D", "%5b::1%5d", "%5Bv1.a%5D", "u%40h", "h%3A80"]));
			// IP literals that differ by letter case only (hosts are compared as they decode, not folded)
			x.extend(v(&["[::a]", "[::A]", "[V1.a]", "[v1.A]", "EXAMPLE", "example"]));
			x
		}
		Kind::Query | Kind::Fragment => {
			let mut x = sp.clone();
			x.extend(v(&["a/b", "a%2Fb", "?", "%3F", "a=b&c", "a%3Db%26c"]));
			x
		}
		Kind::Path => {
			let mut x = v(&[
				"", "/", ".", "..", "./", "../", "a", "/a", "a/", "/a/", "a/b", "a/./b", "a/x/../b", "a/b/.", "a/b/./", "a/b/c/..", "a/b/c/../", "/a/b", "/a/./b", "/a/x/../b",
				"a//b", "a///b", "//a", "/./a", "/.//a", ".//a", "a/..", "/a/..", "a/../..", "/a/../..", "%61/b", "a/%62", "a/%2E/b", "a/%2e%2e/b", "a%2Fb", "./a:b", "a:b", "%FF/a",
				"a/%C1%81", "a/A", "a/%41", "/%2E%2E/..", "/%2e%2e/..", "x/%2E%2E/..", "/.%2E/..", "/z/..", "x/../..", "/%2E%2E/../a", "/a",
				// a sub-delimiter below '/' where another path has '/': segment order != byte order
				"a-b", "a-b/c", "/a-b", "/a!b/c", "/a/c",
			]);
			// components longer than any fixed prefix a hash/compare shortcut might use
			x.push(format!("/{}", "k".repeat(70)).into_bytes());
			x.push(format!("/{}K", "k".repeat(69)).into_bytes());
			x.push(format!("/{}%6B", "k".repeat(69)).into_bytes());
			if f == Family::Iri {
				x.extend(v(&["é/b", "%C3%A9/b"]));
			}
			x.extend(long_paths());
			// systematic part: PATH(2) (thorough: PATH(3)) over segments in several spellings
			let mut segs = vec!["", ".", "..", "a", "A", "%61", "a-b", "a!b", "%2E", "%2e%2e", "a:b", "%FF"];
			if f == Family::Iri {
				segs.push("é");
			}
			x.extend(domains::paths(&v(&segs), if level >= 1 { 3 } else { 2 }));
			// deeper dot-segment structure: PATH(4) over {.., ., a}
			x.extend(domains::paths(&v(&["..", ".", "a"]), 4));
			x
		}
		Kind::Authority => {
			let us = ov(&[None, Some(""), Some("u"), Some("%75"), Some("%FF"), Some("u:p"), Some("u%3Ap")]);
			// "%5B%3A%3A1%5D": reg-name decoding to "[::1]"; "u%40h", "h%3A80": one host whose decoding
			// looks like user-info / port syntax (equal to nothing that really has those components)
			let hs = v(&["", "h", "%68", "H", "[::1]", "[::01]", "%C1%81", "A", "%5B%3A%3A1%5D", "u%40h", "h%3A80", "[::a]", "[::A]"]);
			let ps = ov(&[None, Some(""), Some("80"), Some("080"), Some("9"), Some("70000")]);
			let mut x = Vec::new();
			for u in &us {
				for h in &hs {
					for p in &ps {
						x.push(syntax::recompose_authority(&syntax::AuthParts { userinfo: u.clone(), host: h.clone(), port: p.clone() }));
					}
				}
			}
			x
		}
		Kind::Ri | Kind::RiRef => {
			let schemes = if k == Kind::Ri { ov(&[Some("s"), Some("S")]) } else { ov(&[None, Some("s"), Some("S")]) };
			let mut auths = ov(&[None, Some(""), Some("h"), Some("%68"), Some("u@h:80"), Some("%FF")]);
			let mut paths = v(&["", "/", "/a", "/%61", "/a/b", "/a/./b", "/a/x/../b", "/%FF", "/%C1%81", "/A", "a:b", "./a:b", "/a-b"]);
			let mut qs = ov(&[None, Some(""), Some("q"), Some("%71")]);
			let fs = ov(&[None, Some("f"), Some("%66")]);
			if level >= 1 {
				auths.extend(ov(&[Some("%75@h:80"), Some("u@h:080")]));
				paths.extend(v(&["a", "/a/", "/a/b/..", "a/b", "a/./b", "//a", "/.//a", "..", "/a//b", "/a/%2E/b", ".", "a/..", "/..", "/%2e%2e"]));
				qs.push(Some(domains::b("%FF")));
			}
			let mut all: Vec<Vec<u8>> = domains::references(&schemes, &auths, &paths, &qs, &fs).into_iter().map(|(t, _)| t).collect();
			// long components (70 bytes; two spellings and one near miss each)
			let k70 = "k".repeat(70);
			let k69 = "k".repeat(69);
			for t in [
				format!("s://h/p?{k70}"), format!("s://h/p?{k69}%6B"), format!("s://h/p?{k69}K"),
				format!("s://h/p#{k70}"), format!("s://h/p#{k69}%6B"), format!("s://h/p#{k69}K"),
				format!("s://{k70}/p"), format!("s://{k69}%6B/p"), format!("s://{k69}K/p"),
				format!("s://{k70}@h/p"), format!("s://{k69}%6B@h/p"), format!("s://{k69}K@h/p"),
				format!("s://h/{k70}"), format!("s://h/{k69}%6B"), format!("s://h/{k69}K"),
				"s://h/%2E%2E/..".to_string(), "s://h/%2E%2E/../a".to_string(), "s://h/x/../a".to_string(),
					"s://h/p#%4a".to_string(), "s://h/p#%4A".to_string(), "s://h/p#J".to_string(), "s://h/p#%4B".to_string(),
					"s://h/p?%4a".to_string(), "s://h/p?%4A".to_string(), "s://h/%4a".to_string(), "s://h/%4A".to_string(),
					"s://%4a/p".to_string(), "s://%4A/p".to_string(), "s://%4a@h/p".to_string(), "s://%4A@h/p".to_string(),
					// a query / fragment holding its own delimiter, and near misses
					"s://h/p?a?b".to_string(), "s://h/p?a?c".to_string(), "s://h/p?a".to_string(), "s://h/p?a%3Fb".to_string(), "s://h/p?x?y#f".to_string(), "s://h/p?x?y#g".to_string(),
					"s://h/p?x?y".to_string(), "s://h/p#a?b".to_string(), "s://h/p#a?c".to_string(), "s://h/p#a".to_string(), "s:a:b".to_string(), "s:a:c".to_string(), "s:a".to_string(),
					// equal values of very different LENGTHS (dot segments lengthen without bound)
					"s:".to_string(), "s:./././.".to_string(), "s:/".to_string(), "s:/a/../b/../c/..".to_string(), "s:/a/../b/../c/../".to_string(), "s://h/A".to_string(),
					"s://h/./a/../%41".to_string(), "s://h/./a/b/c/../../../d/../././A".to_string(), "s:../a/../..".to_string(), "s:../..".to_string(),
					// a path starting with an empty segment after an authority, differing late
					"s://h//x/y".to_string(), "s://h//x/z".to_string(), "s://h//x/y?q".to_string(), "s://h//x/y?r".to_string(), "s://h//x/y#f".to_string(), "s://h//x".to_string(),
					"s://h//x/".to_string(),
					"s:p#a?b".to_string(), "s:p#a%3Fb".to_string(), "s:p#a%3fb".to_string(), "s:p?a#b?c".to_string(), "s:p?a#b%3Fc".to_string(),
					"s:/#a/../b".to_string(), "s:/#b".to_string(), "s:/#./a".to_string(), "s:/#a".to_string(), "s:/#a?b".to_string(), "s:/#a%3Fb".to_string(), "s:/?a/../b".to_string(),
					"s:/?b".to_string(), "s:/#".to_string(), "s:/".to_string(),
					"s://[::a]/p".to_string(), "s://[::A]/p".to_string(), "s://h:9/".to_string(), "s://h:10/".to_string(), "s://h:70000/".to_string(),
					"s://[::1]/a".to_string(), "s://%5B%3A%3A1%5D/a".to_string(), "s://[::01]/a".to_string(), "s://u%40h/a".to_string(), "s://u@h/a".to_string(),
					"s://h%3A80/a".to_string(), "s://h:80/a".to_string(), "s://[::1]".to_string(), "s://%5B%3A%3A1%5D".to_string(),
					// schemes the library knows (feature `data`) are compared like any other
					"data:a/./b".to_string(), "data:a/b".to_string(), "data:a/x/../b".to_string(), "data:/a/../b".to_string(), "data:/b".to_string(), "data:text/plain,a/./b".to_string(),
					"data:text/plain,a/b".to_string(), "DATA:a/./b".to_string(), "dat:a/./b".to_string(), "dat:a/b".to_string(), "data:a/b?q".to_string(), "data:a/./b?q".to_string(),
					"http://h/a/./b".to_string(), "http://h/a/b".to_string(), "https://h/a/b".to_string(), "file:///a/./b".to_string(), "file:///a/b".to_string(), "urn:a/./b".to_string(), "urn:a/b".to_string(),
					"mailto:a/./b".to_string(), "mailto:a/b".to_string(),
			] {
				all.push(t.into_bytes());
			}
			if f == Family::Iri {
				// non-ASCII text in every component, next to its escaped spelling
				for t in ["s://h/é", "s://h/%C3%A9", "s:é/b", "s:%C3%A9/b", "s://é/", "s://%C3%A9/", "s://é@h/", "s://h/p?é", "s://h/p?%C3%A9", "s://h/p#é", "s://h/p#%C3%A9", "s://h/\u{10000}"] {
					all.push(domains::b(t));
				}
			}
			// beyond the 16-segment inline buffer of the normalised-segment iterator
			for lp in long_paths().into_iter().filter(|p| p.starts_with(b"/")) {
				for pre in ["s://h", "s:"] {
					let mut t = pre.as_bytes().to_vec();
					t.extend_from_slice(&lp);
					all.push(t);
				}
			}
			all
		}
	};
	if matches!(k, Kind::Segment | Kind::UserInfo | Kind::Host | Kind::Query | Kind::Fragment) {
		// equal prefixes of 7 / 8 / 15 / 16 bytes, then a difference in spelling only, a real difference,
		// and (IRI) a multi-byte character straddling the block boundary
		for n in [7usize, 8, 15, 16, 31, 32, 63, 64, 127, 128, 129, 255, 256] {
			let pre: String = "abcdefghijklmnopqrstuvwxyz".chars().cycle().take(n).collect();
			// the prefix itself: exactly n bytes, against longer values that start with it
			out.push(pre.clone().into_bytes());
			out.push(format!("{pre}x").into_bytes());
			out.push(format!("{pre}%78").into_bytes());
			out.push(format!("{pre}y").into_bytes());
			if f == Family::Iri {
				out.push(format!("{pre}\u{e9}x").into_bytes());
				out.push(format!("{pre}\u{e9}%78").into_bytes());
				out.push(format!("{pre}\u{e9}y").into_bytes());
				out.push(format!("{pre}%C3%A9x").into_bytes());
			}
		}
		// systematic part: every text of <= 2 tokens that is valid for the component
		out.extend(products2(&component_tokens(f, level)));
		out.push("k".repeat(70).into_bytes());
		out.push(format!("{}%6B", "k".repeat(69)).into_bytes());
		out.push(format!("{}K", "k".repeat(69)).into_bytes());
	}
	out.retain(|t| refs.valid(f, k, t));
	out.sort();
	out.dedup();
	out
}

fn run_prop(ctx: &Ctx, prop: &'static str) -> Report {
	let refs = Refs::new(&ctx.root);
	let mut total = Report::new();
	total.rule = format!(
		"per type (20 validated types): a domain of SPELLINGS (several texts per abstract value: A/%41, é/%C3%A9/%c3%a9, a/b vs a/./b vs a/x/../b, ports 80/080, schemes s/S, hosts [::1]/[::01], present-but-empty vs absent, every component text of <= 2 tokens over letters / encoded letters in both hex cases / literal and encoded delimiters, PATH(2|3) over segment spellings, ill-formed octets %FF, overlong %C1%81, truncated %C3, surrogate %ED%A0%80) combined through the reference composition; ALL ordered pairs of each domain{}; non-trivial = distinct ordered pair (type, a, b)",
		if prop == "C08" { ", all triples of a sub-domain for transitivity of cmp, Borrow views and collection lookups per value" } else { " incl. cross-type impls" }
	);
	let level = ctx.pick(0u8, 1u8);
	for (f, k) in validated_types() {
		let dom = domain(f, k, refs, level);
		let n = dom.len();
		total.count(&format!("{}_{}_values", f.name(), k.name()), n as u64);
		let classes: std::collections::BTreeSet<String> = dom.iter().map(|t| by_family!(f, c07_canon(k, t))).collect();
		total.count(&format!("{}_{}_classes", f.name(), k.name()), classes.len() as u64);
		let shards = 64usize.min(n.max(1));
		let r = run_shards(ctx, shards, |si| {
			let mut r = Report::new();
			let mut vs = Vec::new();
			for (i, a) in dom.iter().enumerate() {
				if i % shards != si {
					continue;
				}
				r.states += 1;
				for b in &dom {
					let e = if prop == "C07" { by_family!(f, c07_pair(k, a, b, &mut vs)) } else { by_family!(f, c08_pair(k, a, b, &mut vs)) };
					r.evaluations += e;
					r.transitions += 1;
					if r.transitions % 400009 == 1 {
						r.sample(by_family!(f, c07_input(k, a, b)));
					}
					for x in vs.drain(..) {
						r.violate(x);
					}
				}
				if prop == "C08" && k == Kind::Ri {
					r.evaluations += by_family!(f, c08_views(a, &mut vs));
					for x in vs.drain(..) {
						r.violate(x);
					}
				}
				if ctx.out_of_time() {
					r.cap("wall clock reached");
					break;
				}
			}
			r.distinct_nontrivial = r.transitions;
			r.traces = r.transitions;
			r
		});
		total.merge(r);
		if prop == "C08" && f == Family::Uri && !matches!(k, Kind::Scheme | Kind::Port) {
			// Borrow<Iri>/Borrow<IriRef> for Uri: the IRI view must compare, order and (for whole
			// URIs) hash exactly like the URI - on every ordered pair
			let shards = 64usize.min(n.max(1));
			let r = run_shards(ctx, shards, |si| {
				let mut r = Report::new();
				for (i, a) in dom.iter().enumerate() {
					if i % shards != si {
						continue;
					}
					for b in &dom {
						r.evaluations += 1;
						if let Some(v) = cross_family_case(k, a, b) {
							r.violate(v);
						}
					}
				}
				r
			});
			total.merge(r);
		}
		if prop == "C08" && k == Kind::Ri {
			total.evaluations += by_family!(f, c08_collections(&dom, &mut total));
		}
		if prop == "C08" {
			// triples on a sub-domain that keeps one or two members of every class
			let mut sub: Vec<&Vec<u8>> = Vec::new();
			let mut per: std::collections::BTreeMap<String, usize> = Default::default();
			for t in &dom {
				let c = by_family!(f, c07_canon(k, t));
				let e = per.entry(c).or_insert(0);
				if *e < 2 {
					*e += 1;
					sub.push(t);
				}
			}
			sub.truncate(ctx.pick(60, 150));
			let m = sub.len();
			let shards = 16usize.min(m.max(1));
			let r = run_shards(ctx, shards, |si| {
				let mut r = Report::new();
				let mut vs = Vec::new();
				for i in 0..m {
					if i % shards != si {
						continue;
					}
					for j in 0..m {
						for l in 0..m {
							by_family!(f, c08_triple(k, sub[i], sub[j], sub[l], &mut vs));
							r.evaluations += 1;
						}
					}
					for x in vs.drain(..) {
						r.violate(x);
					}
				}
				r.count("triples", (m * m) as u64 * ((m + shards - 1 - si) / shards) as u64);
				r
			});
			total.merge(r);
		}
	}
	if prop == "C08" && Family::active().contains(&Family::Uri) {
		// the owned / borrowed data-URL pair (feature `data`): DataUrlBuf: Borrow<DataUrl>
		let mut r = Report::new();
		for t in data_url_values() {
			r.states += 1;
			r.evaluations += 1;
			for v in data_url_views_case(&t) {
				r.violate(v);
			}
		}
		total.count("data_url_values", r.states);
		total.merge(r);
		// all ordered pairs of a sub-domain with several spellings of one URI (dot segments and
		// escapes in media type and data): owned and borrowed forms must compare alike
		let vals = data_url_pair_values();
		let shards = 64usize;
		let r = run_shards(ctx, shards, |si| {
			let mut r = Report::new();
			for (i, a) in vals.iter().enumerate() {
				if i % shards != si {
					continue;
				}
				for b in &vals {
					r.evaluations += 1;
					r.transitions += 1;
					if let Some(v) = data_url_pair_case(a, b) {
						r.violate(v);
					}
				}
			}
			r
		});
		total.count("data_url_pairs", r.transitions);
		total.merge(r);
	}
	total.info.insert("bounds".into(), json!({"alphabet_level": level}));
	total
}

/// Accepted data URLs: every accepted sequence of <= 4 tokens of the C18 alphabet plus a few longer ones.
pub fn data_url_values() -> Vec<Vec<u8>> {
	use iref::uri::data::DataUrl;
	let toks = super::c18::tokens();
	let mut out: Vec<Vec<u8>> = Vec::new();
	for si in 0..domains::raw_shard_count(toks.len()) {
		domains::for_each_raw(&toks, 4, si, |t| {
			if DataUrl::new(t).is_ok() {
				out.push(t.to_vec());
			}
		});
	}
	for t in ["data:text/plain;base64,SGVsbG8=", "data:text/plain,hello%20world", "data:a/b;base64,", "data:,%FF"] {
		out.push(t.as_bytes().to_vec());
	}
	out.sort();
	out.dedup();
	out
}

/// Data URLs in several spellings that are equal as URIs (the comparison of the underlying `Uri`
/// removes dot segments and decodes escapes), and near misses.
pub fn data_url_pair_values() -> Vec<Vec<u8>> {
	[
		"data:,", "data:,x", "data:a,x", "data:./a,x", "data:a/../a,x", "data:b/../a,x", "data:%61,x", "data:a,%78", "data:a/b,x", "data:a/./b,x", "data:a/b;base64,QQ==",
		"data:a/./b;base64,QQ==", "data:;base64,QQ==", "data:;base64,QQ%3D%3D", "data:a,x/..", "data:a,", "data:A,x", "data:a,X",
	]
	.iter()
	.map(|t| t.as_bytes().to_vec())
	.chain({
		// systematic part: "data:" + [/] PATH(3) over segments that carry the delimiters of the data-URL
		// shape (',' ';base64,') next to dot segments and escapes - the URI comparison removes dot
		// segments, so the FIRST delimiter of two equal values need not be the same one
		let segs: Vec<Vec<u8>> = ["", ".", "..", "a", "%61", ",", ",x", "a,x", ";base64,QQ", "a;base64,QQ"].iter().map(|s| s.as_bytes().to_vec()).collect();
		domains::paths(&segs, 3).into_iter().map(|p| {
			let mut t = b"data:".to_vec();
			t.extend_from_slice(&p);
			t
		})
	})
	.filter(|t| iref::uri::data::DataUrl::new(t).is_ok())
	.collect::<std::collections::BTreeSet<Vec<u8>>>()
	.into_iter()
	.collect()
}

/// Owned and borrowed forms of the same two texts must give the same ==, cmp and hash agreement.
pub fn data_url_pair_case(a: &[u8], b: &[u8]) -> Option<Violation> {
	use crate::fam::uri::fnv_hash;
	use iref::uri::data::{DataUrl, DataUrlBuf};
	let input = json!({"fam": "uri", "data_url_a": crate::engine::bytes_json(a), "data_url_b": crate::engine::bytes_json(b)});
	let r = crate::engine::guard(|| {
		let (oa, ob) = (DataUrlBuf::new(a.to_vec()).ok().unwrap(), DataUrlBuf::new(b.to_vec()).ok().unwrap());
		let (ba, bb) = (DataUrl::new(a).ok().unwrap(), DataUrl::new(b).ok().unwrap());
		let owned = (oa == ob, oa.cmp(&ob), oa.partial_cmp(&ob));
		let borrowed = (ba == bb, ba.cmp(bb), ba.partial_cmp(bb));
		let hash_ok = !(oa == ob) || fnv_hash(&oa) == fnv_hash(&ob);
		(owned, borrowed, hash_ok)
	});
	match r {
		crate::engine::Guard::Ok((owned, borrowed, hash_ok)) => {
			if owned != borrowed {
				Some(Violation::new("C08", "data-url-pairs", "owned-vs-borrowed", input).obs(format!("owned (==, cmp, partial_cmp) = {:?}, borrowed = {:?}", owned, borrowed)).exp("identical results whether the two values are held owned or borrowed"))
			} else if !hash_ok {
				Some(Violation::new("C08", "data-url-pairs", "eq-but-hash-differs", input).obs("a == b but the hashes differ").exp("equal values hash identically"))
			} else {
				None
			}
		}
		crate::engine::Guard::Panic(pm) => Some(Violation::new("C08", "data-url-pairs", "panic", input).obs(format!("panic: {pm}")).exp("no panic")),
	}
}

/// C08 for the data-URL pair: the owned value and its borrowed view hash, compare and look up alike.
pub fn data_url_views_case(t: &[u8]) -> Vec<Violation> {
	use crate::fam::uri::{chunky_hash, default_hash, fnv_hash};
	use iref::uri::data::{DataUrl, DataUrlBuf};
	use std::borrow::Borrow;
	let input = json!({"fam": "uri", "data_url": crate::engine::bytes_json(t)});
	let mk = |what: &str| Violation::new("C08", "data-url-views", what, input.clone());
	let mut out = Vec::new();
	let r = crate::engine::guard(|| {
		let mut probs: Vec<(&'static str, String)> = Vec::new();
		let o = DataUrlBuf::new(t.to_vec()).ok().expect("accepted data URL");
		let b: &DataUrl = DataUrl::new(t).ok().expect("accepted data URL");
		let v: &DataUrl = o.borrow();
		for (name, ho, hb) in [("fnv", fnv_hash(&o), fnv_hash(b)), ("DefaultHasher", default_hash(&o), default_hash(b)), ("chunk-sensitive", chunky_hash(&o), chunky_hash(b))] {
			if ho != hb {
				probs.push(("hash-owned-vs-borrowed", format!("{name}: DataUrlBuf {ho:x}, &DataUrl {hb:x}")));
			}
		}
		if v != b || v.cmp(b) != std::cmp::Ordering::Equal {
			probs.push(("eq-owned-vs-borrowed", "Borrow<DataUrl> of the owned value differs from the borrowed value of the same text".into()));
		}
		let o2 = DataUrlBuf::new(t.to_vec()).ok().unwrap();
		if o != o2 || o.cmp(&o2) != std::cmp::Ordering::Equal || fnv_hash(&o) != fnv_hash(&o2) {
			probs.push(("owned-vs-owned", "two owned values of one text differ".into()));
		}
		let mut hs = std::collections::HashSet::new();
		hs.insert(o.clone());
		if !hs.contains(b) {
			probs.push(("HashSet<DataUrlBuf>.contains(&DataUrl)", "false for the value just inserted".into()));
		}
		let mut bs = std::collections::BTreeSet::new();
		bs.insert(o.clone());
		if !bs.contains(b) {
			probs.push(("BTreeSet<DataUrlBuf>.contains(&DataUrl)", "false for the value just inserted".into()));
		}
		probs
	});
	match r {
		crate::engine::Guard::Ok(probs) => {
			for (what, obs) in probs {
				out.push(mk(what).obs(obs).exp("owned and borrowed views of one value hash, compare and look up identically"));
			}
		}
		crate::engine::Guard::Panic(pm) => out.push(mk("panic").obs(format!("panic: {pm}")).exp("no panic")),
	}
	out
}

pub fn run_c07(ctx: &Ctx) -> Report {
	run_prop(ctx, "C07")
}
pub fn run_c08(ctx: &Ctx) -> Report {
	run_prop(ctx, "C08")
}

pub fn replay_c07(_ctx: &Ctx, _check: &str, input: &Value) -> Vec<Violation> {
	match super::input_family(input) {
		Some(f) => by_family!(f, c07_replay(input, "C07")),
		None => vec![],
	}
}
fn cross_family_case(k: Kind, a: &[u8], b: &[u8]) -> Option<Violation> {
	let (u, ir) = (crate::fam::uri::c07_pair_obs(k, a, b), crate::fam::iri::c07_pair_obs(k, a, b));
	if let (crate::engine::Guard::Ok(u), crate::engine::Guard::Ok(ir)) = (u, ir) {
		let whole = matches!(k, Kind::Ri | Kind::RiRef);
		if u.eq != ir.eq || u.cmp != ir.cmp || (whole && (u.hash_a != ir.hash_a || u.hash_b != ir.hash_b || u.chash_a != ir.chash_a || u.chash_b != ir.chash_b)) {
			return Some(
				Violation::new("C08", "cross-family", "uri-vs-iri-view", crate::fam::uri::c07_input(k, a, b))
					.feat("type", format!("uri::{}", k.name()))
					.obs(format!("URI: == {} cmp {:?}; IRI view: == {} cmp {:?}", u.eq, u.cmp, ir.eq, ir.cmp))
					.exp("a URI and the same text seen as an IRI compare, order and hash identically"),
			);
		}
	}
	None
}

pub fn replay_c08(ctx: &Ctx, check: &str, input: &Value) -> Vec<Violation> {
	let f = match super::input_family(input) {
		Some(f) => f,
		None => return vec![],
	};
	if check == "data-url-pairs" {
		return match (crate::engine::json_bytes(&input["data_url_a"]), crate::engine::json_bytes(&input["data_url_b"])) {
			(Some(a), Some(b)) => data_url_pair_case(&a, &b).into_iter().collect(),
			_ => vec![],
		};
	}
	if check == "data-url-views" {
		return crate::engine::json_bytes(&input["data_url"]).map(|t| data_url_views_case(&t)).unwrap_or_default();
	}
	match check {
		"cross-family" => {
			let k = input["kind"].as_str().and_then(Kind::parse);
			let (a, b) = (crate::engine::json_bytes(&input["a"]), crate::engine::json_bytes(&input["b"]));
			match (k, a, b) {
				(Some(k), Some(a), Some(b)) => cross_family_case(k, &a, &b).into_iter().collect(),
				_ => vec![],
			}
		}
		"collections" => {
			// the lookup happens in a set holding the whole domain: rebuild it (both tiers' domains
			// are tried, the value decides which one it came from)
			let refs = Refs::new(&ctx.root);
			let want = crate::engine::json_bytes(&input["a"]).unwrap_or_default();
			let mut out = Vec::new();
			for level in [0u8, 1u8] {
				let dom = domain(f, Kind::Ri, refs, level);
				if !dom.contains(&want) {
					continue;
				}
				let mut r = Report::new();
				by_family!(f, c08_collections(&dom, &mut r));
				for b in r.buckets.into_values() {
					for v in b.examples {
						out.push(v);
					}
				}
				// the aggregated report keeps 3 examples per signature: normalise to the asked input
				for v in out.iter_mut() {
					v.input = input.clone();
				}
				break;
			}
			out
		}
		_ => by_family!(f, c07_replay(input, "C08")),
	}
}
