//! C18: data URL views are coherent and reassemble the original.

use crate::engine::{bytes_json, guard, json_bytes, lossy, run_shards, Ctx, Guard, Report, Violation};
use crate::fam::{Family, Kind};
use crate::model::{domains, Refs};
use iref::uri::data::{DataUrl, DataUrlBuf};
use serde_json::{json, Value};
use std::str::FromStr;
use std::sync::atomic::{AtomicU64, Ordering};
use std::sync::{Arc, Mutex};
use std::time::{Duration, Instant};

/// Independent RFC 4648 (standard alphabet, canonical padding, no stray bits) decoder.
pub fn b64_decode(s: &[u8]) -> Option<Vec<u8>> {
	fn v(c: u8) -> Option<u32> {
		match c {
			b'A'..=b'Z' => Some((c - b'A') as u32),
			b'a'..=b'z' => Some((c - b'a') as u32 + 26),
			b'0'..=b'9' => Some((c - b'0') as u32 + 52),
			b'+' => Some(62),
			b'/' => Some(63),
			_ => None,
		}
	}
	if s.len() % 4 != 0 {
		return None;
	}
	let mut out = Vec::new();
	for (i, ch) in s.chunks(4).enumerate() {
		let last = i + 1 == s.len() / 4;
		let pad = ch.iter().rev().take_while(|c| **c == b'=').count();
		if pad > 2 || (pad > 0 && !last) {
			return None;
		}
		let mut n = 0u32;
		for c in &ch[..4 - pad] {
			n = (n << 6) | v(*c)?;
		}
		n <<= 6 * pad as u32;
		match pad {
			0 => out.extend_from_slice(&[(n >> 16) as u8, (n >> 8) as u8, n as u8]),
			1 => {
				if n & 0xFF != 0 {
					return None;
				}
				out.extend_from_slice(&[(n >> 16) as u8, (n >> 8) as u8]);
			}
			_ => {
				if n & 0xFFFF != 0 {
					return None;
				}
				out.push((n >> 16) as u8);
			}
		}
	}
	Some(out)
}

/// Weak shape reference: "data:" M "," data, where M holds no ','.
/// The most liberal reading of "media-type" that RFC 2397 / RFC 6838 support: type and subtype
/// names over the RFC 6838 restricted-name characters (ALPHA DIGIT ! # $ & - ^ _ . +) and '/',
/// optionally followed by ";attribute=value" parameters whose value may hold anything but ',' and
/// ';' (in particular %XX escapes). A '%' outside a parameter value is in no reading.
fn media_type_ok(m: &[u8]) -> bool {
	let mut in_value = false;
	for c in m {
		match *c {
			b';' => in_value = false,
			b'=' => in_value = true,
			b',' => return false,
			c if in_value => {
				let _ = c;
			}
			c if c.is_ascii_alphanumeric() || b"!#$&-^_.+/".contains(&c) => (),
			_ => return false,
		}
	}
	true
}

fn shape(t: &[u8]) -> Option<(Vec<u8>, bool, Vec<u8>)> {
	let rest = t.strip_prefix(b"data:")?;
	let comma = rest.iter().position(|c| *c == b',')?;
	let m = &rest[..comma];
	let data = rest[comma + 1..].to_vec();
	let (mt, b64) = match m.strip_suffix(b";base64") {
		Some(mt) => (mt.to_vec(), true),
		None => (m.to_vec(), false),
	};
	if !media_type_ok(&mt) {
		return None;
	}
	Some((mt, b64, data))
}

type Views = (Option<String>, bool, String, (Option<String>, bool, String), Result<Vec<u8>, String>);

fn borrowed_views(d: &DataUrl) -> Views {
	let p = d.parts();
	(
		d.media_type().map(|s| s.to_string()),
		d.is_base_64_encoded(),
		d.encoded_data().to_string(),
		(p.media_type.map(|s| s.to_string()), p.base_64, p.data.to_string()),
		d.decoded_data().map(|c| c.into_owned()).map_err(|e| e.to_string()),
	)
}

fn owned_views(d: &DataUrlBuf) -> Views {
	let p = d.parts();
	(
		d.media_type().map(|s| s.to_string()),
		d.is_base_64_encoded(),
		d.encoded_data().to_string(),
		(p.media_type.map(|s| s.to_string()), p.base_64, p.data.to_string()),
		d.decoded_data().map(|c| c.into_owned()).map_err(|e| e.to_string()),
	)
}

pub fn case(t: &[u8], refs: &Refs, out: &mut Vec<Violation>) -> u64 {
	let input = json!({"text": bytes_json(t)});
	let uri_ok = refs.valid(Family::Uri, Kind::Ri, t);
	let sh = shape(t);
	let mk = |what: &str| Violation::new("C18", "data-url", what, input.clone()).feat("uri_valid", uri_ok).feat("shape_ok", sh.is_some());
	let r = guard(|| {
		let mut probs: Vec<(String, String)> = Vec::new();
		let b = DataUrl::new(t);
		let o = DataUrlBuf::new(t.to_vec());
		let verdict = b.is_ok();
		if o.is_ok() != verdict {
			probs.push(("constructors-differ".into(), format!("DataUrl::new {} vs DataUrlBuf::new {}", verdict, o.is_ok())));
		}
		if let Err(e) = &o {
			if e.0 != t {
				probs.push(("error-payload".into(), format!("DataUrlBuf::new error carries {:?}", lossy(&e.0))));
			}
		}
		if let Ok(s) = std::str::from_utf8(t) {
			let routes: [(&str, bool); 4] = [
				("from_string", DataUrlBuf::from_string(s.to_string()).is_ok()),
				("FromStr", DataUrlBuf::from_str(s).is_ok()),
				("TryFrom<String>", DataUrlBuf::try_from(s.to_string()).is_ok()),
				("<&DataUrl>::try_from(&str)", <&DataUrl>::try_from(s).is_ok()),
			];
			for (n, v) in routes {
				if v != verdict {
					probs.push((format!("route:{n}"), format!("{n} {} vs DataUrl::new {}", v, verdict)));
				}
			}
		}
		if let Ok(s) = std::str::from_utf8(t) {
			let js = serde_json::to_string(s).unwrap();
			let de_owned = serde_json::from_str::<DataUrlBuf>(&js);
			if de_owned.is_ok() != verdict {
				probs.push(("route:serde(owned)".into(), format!("deserialisation {} vs DataUrl::new {}", de_owned.is_ok(), verdict)));
			}
			if js.len() == s.len() + 2 {
				let de_b = serde_json::from_str::<&DataUrl>(&js);
				if de_b.is_ok() != verdict {
					probs.push(("route:serde(borrowed)".into(), format!("deserialisation {} vs DataUrl::new {}", de_b.is_ok(), verdict)));
				}
			}
			// deserialisers that cannot lend the text: a JSON value, a reader, a string with an escape
			{
				let from_value = serde_json::from_value::<DataUrlBuf>(serde_json::Value::String(s.to_string()));
				let from_reader = serde_json::from_reader::<_, DataUrlBuf>(js.as_bytes());
				// (only where the plain JSON string has no escape of its own)
				let escaped = if js.len() == s.len() + 2 { js.replace('/', "\\/").replace("a", "\\u0061") } else { js.clone() };
				let from_escaped = serde_json::from_str::<DataUrlBuf>(&escaped);
				for (n, r) in [("from_value", from_value.is_ok()), ("from_reader", from_reader.is_ok()), ("from_str with escapes", from_escaped.is_ok())] {
					if r != verdict {
						probs.push((format!("route:serde(owned, {n})"), format!("deserialisation {} vs DataUrl::new {}", r, verdict)));
					}
				}
			}
			if let Ok(d) = &de_owned {
				if serde_json::to_string(d).ok().as_deref() != Some(js.as_str()) || serde_json::to_string(d.as_data_url()).ok().as_deref() != Some(js.as_str()) {
					probs.push(("serde:serialise".into(), "serialisation differs from the JSON string of the text".into()));
				}
			}
			// the parts parser used on its own, on accepted values only: the statement says nothing
			// about it elsewhere (it panics on some non-ASCII text that no constructor lets through;
			// see DESIGN.md, "observations outside the properties")
			if verdict {
				let pp = iref::uri::data::DataUrlPartsRef::parse(s);
				match (&pp, DataUrl::new(t)) {
					(Some(p), Ok(d)) => {
						if *p != d.parts() {
							probs.push(("DataUrlPartsRef::parse".into(), "differs from parts()".into()));
						}
					}
					_ => probs.push(("DataUrlPartsRef::parse".into(), "None for an accepted data URL".into())),
				}
			}
			if let Err(e) = <&DataUrl>::try_from(s) {
				if e.0 != s {
					probs.push(("error-payload(&str)".into(), format!("{:?}", e.0)));
				}
			}
		}
		if verdict {
			if !uri_ok {
				probs.push(("accepted-non-uri".into(), "accepted a text that is not a valid URI".into()));
			}
			if sh.is_none() {
				probs.push(("accepted-wrong-shape".into(), "accepted a text that is not 'data:' media-type [';base64'] ',' data".into()));
			}
		}
		if let (Ok(b), Ok(o)) = (b, o) {
			if b.as_str().as_bytes() != t || o.as_str().as_bytes() != t {
				probs.push(("text".into(), "the value does not hold the input text".into()));
			}
			{
				// every other view of the same value holds the same text
				use std::borrow::Borrow;
				let views: [(&str, &[u8]); 8] = [
					("DataUrl::as_uri", b.as_uri().as_bytes()),
					("DataUrl: Deref<Target = Uri>", (**b).as_bytes()),
					("AsRef<DataUrl> for DataUrl", AsRef::<DataUrl>::as_ref(b).as_str().as_bytes()),
					("AsRef<Uri> for DataUrl", AsRef::<iref::Uri>::as_ref(b).as_bytes()),
					("Borrow<DataUrl> for DataUrlBuf", Borrow::<DataUrl>::borrow(&o).as_str().as_bytes()),
					("AsRef<DataUrl> for DataUrlBuf", AsRef::<DataUrl>::as_ref(&o).as_str().as_bytes()),
					("AsRef<Uri> for DataUrlBuf", AsRef::<iref::Uri>::as_ref(&o).as_bytes()),
					("DataUrlBuf::as_data_url", o.as_data_url().as_str().as_bytes()),
				];
				for (name, got) in views {
					if got != t {
						probs.push((format!("view:{name}"), format!("{:?}", lossy(got))));
					}
				}
				if b.scheme().as_bytes() != b"data" {
					probs.push(("view:scheme through Deref".into(), format!("{:?}", lossy(b.scheme().as_bytes()))));
				}
			}
			let bv = borrowed_views(b);
			let ov = owned_views(&o);
			let dv = borrowed_views(&o); // owned seen through Deref<Target = DataUrl>
			if bv != ov || bv != dv {
				probs.push(("borrowed-vs-owned".into(), format!("borrowed {:?} vs owned {:?}", bv, ov)));
			}
			if (bv.0.clone(), bv.1, bv.2.clone()) != bv.3 {
				probs.push(("accessors-vs-parts".into(), format!("{:?}", bv)));
			}
			// reassembly
			let mut re = b"data:".to_vec();
			re.extend_from_slice(bv.0.clone().unwrap_or_default().as_bytes());
			if bv.1 {
				re.extend_from_slice(b";base64");
			}
			re.push(b',');
			re.extend_from_slice(bv.2.as_bytes());
			if re != t {
				probs.push(("reassemble".into(), format!("{:?}", lossy(&re))));
			}
			// decoded data
			if bv.1 {
				if let Some(want) = b64_decode(bv.2.as_bytes()) {
					if bv.4 != Ok(want.clone()) {
						probs.push(("decoded-base64".into(), format!("{:?} instead of {:?}", bv.4, want)));
					}
				}
			} else if bv.4 != Ok(bv.2.as_bytes().to_vec()) {
				probs.push(("decoded-plain".into(), format!("{:?}", bv.4)));
			}
		}
		probs
	});
	match r {
		Guard::Ok(probs) => {
			for (what, obs) in probs {
				out.push(mk(&what).obs(obs).exp("coherent data URL views"));
			}
		}
		Guard::Panic(pm) => out.push(mk("panic").feat("panic_at", crate::engine::panic_site(&pm)).obs(format!("panic: {pm}")).exp("no panic")),
	}
	1
}

/// Owned values are also produced by copying: a clone of b, and a value that held a before b was
/// copied into it (`clone_from` may reuse the buffer), must show b's views.
pub fn copies_case(a: &[u8], b: &[u8]) -> Option<Violation> {
	let input = json!({"text_a": bytes_json(a), "text": bytes_json(b)});
	let r = guard(|| {
		let (oa, ob) = (DataUrlBuf::new(a.to_vec()).ok()?, DataUrlBuf::new(b.to_vec()).ok()?);
		let want = borrowed_views(DataUrl::new(b).ok()?);
		let mut x = oa.clone();
		x.clone_from(&ob);
		let y = ob.clone();
		let mut z = ob.clone();
		z.clone_from(&oa);
		z.clone_from(&ob);
		for (name, v) in [("clone_from", &x), ("clone", &y), ("clone_from twice", &z)] {
			if v.as_str().as_bytes() != b {
				return Some((name, format!("text {:?}", lossy(v.as_str().as_bytes()))));
			}
			let (ov, dv) = (owned_views(v), borrowed_views(v));
			if ov != want || dv != want {
				return Some((name, format!("owned views {:?}, re-scanned {:?}", ov, want)));
			}
		}
		None
	});
	match r {
		Guard::Ok(None) => None,
		Guard::Ok(Some((name, obs))) => Some(Violation::new("C18", "data-url-copies", "copy-views-differ", input).feat("route", name).obs(obs).exp("a copy shows the views of the value it was copied from")),
		Guard::Panic(pm) => Some(Violation::new("C18", "data-url-copies", "panic", input).obs(format!("panic: {pm}")).exp("no panic")),
	}
}

pub fn tokens() -> Vec<Vec<u8>> {
	let mut v: Vec<Vec<u8>> = ["data:", "dat", ":", ",", ";", "base64", "base64,", "BASE64,", "bAse64", "a", "/", "#", "?", "%41", "%", "=", "A", " ", "QQ==", "QR==", "QUJ=", "-A==", "_w==", "+", ";charset="].iter().map(|s| domains::b(s)).collect();
	v.push(vec![0xC3, 0xA9]); // raw non-ASCII bytes
	v
}

/// One slot per worker: what it is working on, and a heartbeat.
struct Slot {
	current: Mutex<Option<Vec<u8>>>,
	beat: AtomicU64,
}

pub fn run(ctx: &Ctx) -> Report {
	let refs = Refs::new(&ctx.root);
	let mut total = Report::new();
	total.rule = "all sequences of <= n tokens over {data: dat : , ; base64 base64, BASE64, bAse64 a / # ? %41 % = A SP QQ== QR== QUJ= -A== _w== + ;charset= é(raw bytes)} as byte strings: both constructors and four string routes agree; acceptance implies URI validity (reference DFA) and the data-URL shape (media type over RFC 6838 name characters and '/', RFC 2397 parameters allowed, no '%' outside a parameter value); for accepted values borrowed, owned and owned-through-Deref views (media_type, is_base_64_encoded, encoded_data, parts, decoded_data) coincide and reassemble the text; decoded data equals an independent RFC 4648 decoder; a watchdog turns a non-terminating accessor into a violation; non-trivial = distinct byte string".into();
	let n = ctx.pick(5usize, 6usize);
	let toks = tokens();
	let shards = domains::raw_shard_count(toks.len());
	let slots: Arc<Vec<Slot>> = Arc::new((0..shards).map(|_| Slot { current: Mutex::new(None), beat: AtomicU64::new(0) }).collect());
	// watchdog: a case that does not finish within 20 s is a violation (borrowed accessors are unbounded loops)
	let wd_slots = slots.clone();
	let root = ctx.root.clone();
	let done = Arc::new(std::sync::atomic::AtomicBool::new(false));
	let wd_done = done.clone();
	let wd = std::thread::spawn(move || {
		let mut last: Vec<(u64, Instant)> = wd_slots.iter().map(|s| (s.beat.load(Ordering::Relaxed), Instant::now())).collect();
		while !wd_done.load(Ordering::Relaxed) {
			std::thread::sleep(Duration::from_millis(200));
			for (i, s) in wd_slots.iter().enumerate() {
				let b = s.beat.load(Ordering::Relaxed);
				if b != last[i].0 {
					last[i] = (b, Instant::now());
				} else if last[i].1.elapsed() > Duration::from_secs(20) {
					if let Some(t) = s.current.lock().unwrap().clone() {
						let dir = root.join("replays").join("C18");
						let _ = std::fs::create_dir_all(&dir);
						let path = dir.join(format!("hang-{:016x}.json", crate::engine::fnv(&t)));
						let v = Violation::new("C18", "data-url", "hang", json!({"text": bytes_json(&t)})).obs("no result within 20 s").exp("terminates");
						let _ = std::fs::write(&path, serde_json::to_string_pretty(&v.to_json()).unwrap());
						println!("VIOLATION property=C18 replay={}", path.display());
						std::process::exit(1);
					}
				}
			}
		}
	});
	let r = run_shards(ctx, shards, |si| {
		let mut r = Report::new();
		let mut vs = Vec::new();
		domains::for_each_raw(&toks, n, si, |t| {
			*slots[si].current.lock().unwrap() = Some(t.to_vec());
			slots[si].beat.fetch_add(1, Ordering::Relaxed);
			r.states += 1;
			r.evaluations += case(t, refs, &mut vs);
			if DataUrl::new(t).is_ok() {
				r.count("accepted", 1);
				if r.counters["accepted"] % 4001 == 1 {
					r.sample(json!({"text": String::from_utf8_lossy(t)}));
				}
			}
			for v in vs.drain(..) {
				r.violate(v);
			}
		});
		*slots[si].current.lock().unwrap() = None;
		slots[si].beat.fetch_add(1, Ordering::Relaxed);
		r
	});
	total.merge(r);
	// long media types and data (offsets that do not fit a byte)
	{
		let mut r = Report::new();
		let mut vs = Vec::new();
		for n in (244usize..=262).chain([300, 511, 512, 513, 65530, 65536]) {
			for b64 in ["", ";base64"] {
				for data in ["", "QQ==", "x"] {
					let t = format!("data:{}{}{},{}", "a/".repeat(n / 2), "b".repeat(n % 2), b64, data).into_bytes();
					r.states += 1;
					r.evaluations += case(&t, refs, &mut vs);
					if DataUrl::new(&t).is_ok() {
						r.count("accepted", 1);
					}
					for v in vs.drain(..) {
						r.violate(v);
					}
				}
			}
		}
		total.count("long_media_type_inputs", r.states);
		total.merge(r);
	}
	// copies: all ordered pairs of the accepted sequences of <= 3 tokens and a few longer values
	{
		let mut vals: Vec<Vec<u8>> = Vec::new();
		for si in 0..shards {
			domains::for_each_raw(&toks, 3, si, |t| {
				if DataUrl::new(t).is_ok() {
					vals.push(t.to_vec());
				}
			});
		}
		for t in ["data:text/plain;base64,SGVsbG8=", "data:text/plain,hello%20world", "data:a/b;base64,", "data:;base64,QQ==", "data:a/b;c=d;base64,QQ==", "data:a/b;c=d,x"] {
			vals.push(t.as_bytes().to_vec());
		}
		vals.sort();
		vals.dedup();
		let cs = 64usize;
		let r = run_shards(ctx, cs, |si| {
			let mut r = Report::new();
			for (i, a) in vals.iter().enumerate() {
				if i % cs != si {
					continue;
				}
				for b in &vals {
					r.evaluations += 1;
					if let Some(v) = copies_case(a, b) {
						r.violate(v);
					}
				}
			}
			r
		});
		total.count("copy_pairs", (vals.len() * vals.len()) as u64);
		total.merge(r);
	}
	done.store(true, Ordering::Relaxed);
	let _ = wd.join();
	total.distinct_nontrivial = total.states;
	total.transitions = total.evaluations;
	total.traces = total.states;
	total.info.insert("bounds".into(), json!({"tokens_max": n, "token_alphabet": toks.len()}));
	total
}

pub fn replay(ctx: &Ctx, check: &str, input: &Value) -> Vec<Violation> {
	if check == "data-url-copies" {
		return match (json_bytes(&input["text_a"]), json_bytes(&input["text"])) {
			(Some(a), Some(b)) => copies_case(&a, &b).into_iter().collect(),
			_ => vec![],
		};
	}
	let refs = Refs::new(&ctx.root);
	let t = match json_bytes(&input["text"]) {
		Some(t) => t,
		None => return vec![],
	};
	// run with a timeout so that a hang is reported, not suffered
	let (tx, rx) = std::sync::mpsc::channel();
	let t2 = t.clone();
	std::thread::spawn(move || {
		let mut out = Vec::new();
		case(&t2, refs, &mut out);
		let _ = tx.send(out);
	});
	match rx.recv_timeout(Duration::from_secs(20)) {
		Ok(v) => v,
		Err(_) => vec![Violation::new("C18", "data-url", "hang", json!({"text": bytes_json(&t)})).obs("no result within 20 s").exp("terminates")],
	}
}
