//! C10 driver: breadth-first search over the real path mutators, one search per context.

use crate::by_family;
use crate::engine::{run_shards, Ctx, Report, Violation};
use crate::fam::{Family, Kind};
use crate::model::pathops::Op;
use crate::model::{domains, ref_valid, syntax, Refs};
use serde_json::{json, Value};
use std::collections::HashSet;

pub fn core_segs(f: Family, level: u8) -> Vec<Vec<u8>> {
	// "a..": an ordinary segment that merely ends with ".."
	let mut v: Vec<&str> = vec!["", ".", "..", "a", "a:b", "1:b", "a.."];
	if f == Family::Iri {
		v.push("é");
	}
	if level >= 1 {
		v.extend(["b", "%2E", ":", "..."]);
	}
	v.into_iter().map(domains::b).collect()
}

pub fn op_alphabet(f: Family, level: u8) -> Vec<Op> {
	let mut ops = Vec::new();
	for s in core_segs(f, level) {
		ops.push(Op::Push(s));
	}
	// arguments only (never initial states): spellings that merely DECODE to a dot segment
	// ... and an escape that is not UTF-8 at all (the octets of a segment are arbitrary)
	for s in ["%2E%2E", "%2e", "%c3%a9", "%FF"] {
		ops.push(Op::Push(domains::b(s)));
		ops.push(Op::SymPush(domains::b(s)));
	}
	ops.push(Op::Pop);
	ops.push(Op::Clear);
	for s in core_segs(f, level) {
		ops.push(Op::SymPush(s));
	}
	let ap: Vec<Vec<u8>> = ["", ".", "..", "a"].iter().map(|s| domains::b(s)).collect();
	for p in domains::paths(&ap, 2) {
		if !p.is_empty() {
			ops.push(Op::SymAppend(p));
		}
	}
	// three-segment arguments: an empty segment right after a dot segment, and an encoded ".."
	for p in ["..//a", ".//a", "..//", "a//..", "%2E%2E/../a"] {
		ops.push(Op::SymAppend(domains::b(p)));
	}
	ops.push(Op::Normalize);
	ops
}

pub fn contexts(level: u8) -> Vec<(Vec<u8>, Vec<u8>)> {
	// "//h:" : an authority ending with ':' (empty port)
	// "//": an EMPTY authority without scheme (the path window starts at offset 2)
	let mut pre: Vec<&str> = vec!["", "s:", "//h", "s://h", "//h:", "//"];
	if level >= 1 {
		pre.extend(["s://", "//u@[::1]:8"]);
	}
	let mut out = Vec::new();
	for p in pre {
		for s in ["", "?q#f"] {
			out.push((domains::b(p), domains::b(s)));
		}
	}
	// tails of exactly two bytes (as long as the shortest splice the editor makes)
	for p in ["//h", "s://h", "s:"] {
		for s in ["?q", "#f"] {
			out.push((domains::b(p), domains::b(s)));
		}
	}
	// ... and of 1, 3 and 4 bytes (every relation between the lengths of splice, old text and tail)
	for s in ["?", "#ff", "?q#f"[..3].to_string().as_str(), "?qqq"] {
		out.push((domains::b("//h"), domains::b(s)));
	}
	out
}

const MAX_PATH_LEN: usize = 40;

pub fn run(ctx: &Ctx) -> Report {
	let refs = Refs::new(&ctx.root);
	let mut total = Report::new();
	total.rule = "explicit-state BFS: state = path text inside a fixed context (prefix, suffix); initial states = PATH(2) over the core segment alphabet valid in the context; transitions = push/pop/clear/symbolic_push/symbolic_append/normalize of the real PathMut (fresh handle, one handle replaying the history, stand-alone PathBuf); a violating transition is reported and not expanded; paths longer than 40 bytes are cut. non-trivial = distinct (context, state, op) transition executed".into();
	let depth_env: Option<usize> = std::env::var("VERIF_C10_DEPTH").ok().and_then(|s| s.parse().ok());
	// (depth, alphabet level) passes: thorough = depth 3 over the core alphabet in every context, depth 3
	// over the level-1 alphabet and depth 4 over the core alphabet in the core contexts
	let passes: Vec<(usize, u8)> = match depth_env {
		Some(d) => vec![(d, 0)],
		None => {
			if ctx.quick() {
				vec![(2, 0)]
			} else {
				vec![(3, 0), (3, 1), (4, 0)]
			}
		}
	};
	let mut jobs: Vec<(Family, Vec<u8>, Vec<u8>, usize, u8)> = Vec::new();
	for (depth, level) in &passes {
		for f in Family::active() {
			for (p, s) in contexts(*level) {
				// the deepest pass keeps to the core contexts (a prefix of each kind, with and without
				// a 4-byte tail); the extra tails and prefixes are explored one level less deep
				let core = ["", "s:", "//h", "s://h"].contains(&std::str::from_utf8(&p).unwrap()) && (s.is_empty() || s == b"?q#f");
				if !ctx.quick() && ((*depth >= 4 && !(core && s.is_empty())) || (*depth == 3 && *level >= 1 && !core)) {
					continue;
				}
				jobs.push((f, p, s, *depth, *level));
			}
		}
	}
	let r = run_shards(ctx, jobs.len(), |ji| {
		let (f, prefix, suffix, depth, level) = &jobs[ji];
		let (f, depth, level) = (*f, *depth, *level);
		let mut r = Report::new();
		let dref = refs.dfa(f, Kind::RiRef);
		let ops = op_alphabet(f, level);
		let mut seen: HashSet<Vec<u8>> = HashSet::new();
		// frontier entries: (path text, initial path, history)
		let mut frontier: Vec<(Vec<u8>, Vec<u8>, Vec<Op>)> = Vec::new();
		for p in domains::paths(&core_segs(f, 0), 2) {
			let mut t = prefix.clone();
			t.extend_from_slice(&p);
			t.extend_from_slice(suffix);
			if ref_valid(&dref, f, Kind::RiRef, &t) && syntax::split(&t).path == p && seen.insert(p.clone()) {
				frontier.push((p.clone(), p, vec![]));
			}
		}
		// long paths (beyond the 16-segment / 512-byte inline buffers): judged for one step,
		// their successors fall under the length cut
		for abs in [false, true] {
			for p in domains::long_paths(abs) {
				let mut t = prefix.clone();
				t.extend_from_slice(&p);
				t.extend_from_slice(suffix);
				if ref_valid(&dref, f, Kind::RiRef, &t) && syntax::split(&t).path == p && seen.insert(p.clone()) {
					frontier.push((p.clone(), p, vec![]));
				}
			}
		}
		r.count("initial_states", frontier.len() as u64);
		let mut vs = Vec::new();
		// one step with every printable ASCII character as (part of) the pushed segment, from a few
		// initial states (the disambiguation rules of push look at specific characters)
		{
			let dseg = refs.dfa(f, Kind::Segment);
			for arg in domains::ascii_sweep(&["X", "aX", "Xa", "X:", "Xa:b"]) {
				if !ref_valid(&dseg, f, Kind::Segment, &arg) {
					continue;
				}
				for init in ["", "a", "/", "/a", "a/", ".."] {
					let init = domains::b(init);
					let mut t = prefix.clone();
					t.extend_from_slice(&init);
					t.extend_from_slice(suffix);
					if !(ref_valid(&dref, f, Kind::RiRef, &t) && syntax::split(&t).path == init) {
						continue;
					}
					for op in [Op::Push(arg.clone()), Op::SymPush(arg.clone())] {
						r.transitions += 1;
						r.evaluations += 1;
						r.count("ascii_sweep_transitions", 1);
						let _ = by_family!(f, c10_step(prefix, suffix, &init, &[], &init, &op, &mut vs));
						for v in vs.drain(..) {
							r.violate(v);
						}
					}
				}
			}
		}
		for d in 0..depth {
			let mut next = Vec::new();
			for (state, init, hist) in &frontier {
				r.states += 1;
				for op in &ops {
					r.transitions += 1;
					r.evaluations += 1;
					let res = by_family!(f, c10_step(prefix, suffix, init, hist, state, op, &mut vs));
					if r.transitions % 40009 == 1 {
						r.sample(by_family!(f, c10_input(prefix, suffix, init, hist, op)));
					}
					for v in vs.drain(..) {
						r.violate(v);
					}
					if let Some(np) = res {
						if np.len() > MAX_PATH_LEN {
							r.count("successors_cut_by_length", 1);
							continue;
						}
						if d + 1 < depth && seen.insert(np.clone()) {
							let mut h = hist.clone();
							h.push(op.clone());
							next.push((np, init.clone(), h));
						}
					}
				}
				if ctx.out_of_time() {
					r.cap(format!("wall clock reached at depth {d}"));
					return r;
				}
			}
			r.count(&format!("depth{}_frontier", d + 1), next.len() as u64);
			frontier = next;
		}
		r.distinct_nontrivial = r.transitions;
		r.traces = r.transitions;
		r
	});
	total.merge(r);
	total.info.insert("bounds".into(), json!({"passes(depth,alphabet_level)": passes, "max_path_bytes": MAX_PATH_LEN, "context_jobs": jobs.len()}));
	total
}

pub fn replay(_ctx: &Ctx, _check: &str, input: &Value) -> Vec<Violation> {
	match super::input_family(input) {
		Some(f) => by_family!(f, c10_replay(input)),
		None => vec![],
	}
}
