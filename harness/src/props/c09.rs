//! C09 driver.

use crate::by_family;
use crate::engine::{run_shards, Ctx, Report, Violation};
use crate::fam::{Family, Kind};
use crate::model::{domains, ref_valid, syntax, Refs};
use serde_json::{json, Value};

/// Long paths crossing the inline-buffer thresholds (16 segments / 512 bytes).
pub fn threshold_paths() -> Vec<Vec<u8>> {
	let mut v: Vec<Vec<u8>> = Vec::new();
	let rep = |pat: &[&str], n: usize, abs: bool| -> Vec<u8> {
		let mut s = String::new();
		if abs {
			s.push('/');
		}
		for i in 0..n {
			if i > 0 {
				s.push('/');
			}
			s.push_str(pat[i % pat.len()]);
		}
		s.into_bytes()
	};
	for n in [15usize, 16, 17, 18, 33, 40] {
		for abs in [false, true] {
			v.push(rep(&["a"], n, abs)); // all keep
			v.push(rep(&[".."], n, abs)); // all pop / all kept ".."
			v.push(rep(&["a", ".."], n, abs)); // alternating
			v.push(rep(&["a", "."], n, abs));
			v.push(rep(&["a", ""], n, abs));
			// n keeps followed by n pops
			let mut t = rep(&["a"], n, abs);
			for _ in 0..n {
				t.extend_from_slice(b"/..");
			}
			v.push(t);
			let mut t = rep(&["a"], n, abs);
			for _ in 0..(n + 1) {
				t.extend_from_slice(b"/..");
			}
			t.extend_from_slice(b"/b:c");
			v.push(t);
		}
	}
	// byte-length thresholds of the in-place buffer: 511 / 512 / 513 / 2000 bytes after normalisation
	for total in [510usize, 511, 512, 513, 514, 2000] {
		for abs in [false, true] {
			// one long segment
			let mut t: Vec<u8> = if abs { b"/".to_vec() } else { Vec::new() };
			t.extend(std::iter::repeat(b'a').take(total));
			v.push(t.clone());
			// two segments whose join has exactly `total` bytes, wrapped in dot segments
			let mut t2: Vec<u8> = if abs { b"/".to_vec() } else { Vec::new() };
			t2.extend_from_slice(b"x/../");
			t2.extend(std::iter::repeat(b'a').take(total / 2));
			t2.extend_from_slice(b"/./");
			t2.extend(std::iter::repeat(b'b').take(total - total / 2 - 1));
			t2.extend_from_slice(b"/c/..");
			v.push(t2);
		}
	}
	v
}

pub fn embed_contexts(path: &[u8]) -> Vec<Vec<u8>> {
	let mut out = Vec::new();
	for pre in ["", "s:", "//h", "s://h", "//", "s://"] {
		for suf in ["", "?q#f"] {
			let mut t = pre.as_bytes().to_vec();
			t.extend_from_slice(path);
			t.extend_from_slice(suf.as_bytes());
			out.push(t);
		}
	}
	// a query / fragment that itself looks like "scheme://authority" (what precedes the path decides
	// how it may be written, never what follows it)
	for (pre, suf) in [("", "?n=s://h/#f"), ("", "#x://y"), ("s:", "?n=t://g/")] {
		let mut t = pre.as_bytes().to_vec();
		t.extend_from_slice(path);
		t.extend_from_slice(suf.as_bytes());
		out.push(t);
	}
	out
}

pub fn run(ctx: &Ctx) -> Report {
	let refs = Refs::new(&ctx.root);
	let mut total = Report::new();
	total.rule = "every path text {relative,absolute} x SEG^{<=n} accepted by the reference DFA, plus threshold paths (15..40 segments, 510..2000 bytes); each stand-alone (iterator, normalised copy, in-place) and embedded in p, s:p, //h p, s://h p, // p, s:// p with and without ?q#f (and with a query / fragment that looks like scheme://authority) where the composition is valid and re-splits to the same path; non-trivial = distinct path text containing a dot segment, or distinct embedding".into();
	let plans: Vec<(u8, usize)> = if ctx.quick() { vec![(0, 6), (1, 4)] } else { vec![(0, 8), (1, 5), (2, 4)] };
	let mut seen: std::collections::HashSet<(Family, Vec<u8>)> = std::collections::HashSet::new();
	for f in Family::active() {
		let d = refs.dfa(f, Kind::Path);
		let dref = refs.dfa(f, Kind::RiRef);
		let mut all: Vec<Vec<u8>> = Vec::new();
		for (level, n) in &plans {
			for t in domains::paths(&domains::seg_alphabet(f, *level), *n) {
				if ref_valid(&d, f, Kind::Path, &t) && seen.insert((f, t.clone())) {
					all.push(t);
				}
			}
		}
		for t in threshold_paths() {
			if ref_valid(&d, f, Kind::Path, &t) && seen.insert((f, t.clone())) {
				all.push(t);
			}
		}
		// every short shape (PATH(3) over the structural alphabet) continued beyond the inline
		// buffers: a 600-byte tail, and a 20-segment tail
		let long_tail: Vec<u8> = std::iter::repeat(b'L').take(600).collect();
		let seg_tail: Vec<u8> = vec!["t"; 20].join("/").into_bytes();
		for p in domains::paths(&domains::seg_alphabet(f, 0), 3) {
			for tail in [&long_tail, &seg_tail] {
				let mut t = p.clone();
				if !t.is_empty() && !t.ends_with(b"/") {
					t.push(b'/');
				}
				t.extend_from_slice(tail);
				if ref_valid(&d, f, Kind::Path, &t) && seen.insert((f, t.clone())) {
					all.push(t);
				}
			}
		}
		let shards = 64usize;
		let r = run_shards(ctx, shards, |si| {
			let mut r = Report::new();
			let mut vs = Vec::new();
			for (i, t) in all.iter().enumerate() {
				if i % shards != si {
					continue;
				}
				let e = by_family!(f, c09_case(t, &mut vs));
				r.evaluations += e;
				if t.len() <= 12 {
					r.evaluations += by_family!(f, c09_reused_handle_case(t, &mut vs));
				}
				r.states += 1;
				r.traces += 1;
				if t.split(|c| *c == b'/').any(|s| s == b"." || s == b"..") {
					r.distinct_nontrivial += 1;
				}
				for ctxt in embed_contexts(t) {
					if !ref_valid(&dref, f, Kind::RiRef, &ctxt) || syntax::split(&ctxt).path != *t {
						continue;
					}
					r.evaluations += by_family!(f, c09_embedded_case(&ctxt, &mut vs));
					if t.len() <= 6 {
						r.evaluations += by_family!(f, c09_reused_handle_embedded_case(&ctxt, &mut vs));
					}
					r.transitions += 1;
					r.distinct_nontrivial += 1;
					r.traces += 1;
				}
				if i % 30011 == 5 {
					r.sample(json!({"fam": f.name(), "path": String::from_utf8_lossy(t)}));
				}
				for v in vs.drain(..) {
					r.violate(v);
				}
			}
			r
		});
		total.count(&format!("{}_paths", f.name()), all.len() as u64);
		total.merge(r);
		if ctx.out_of_time() {
			total.cap(format!("wall clock reached after {}", f.name()));
			return total;
		}
	}
	total.info.insert("bounds".into(), json!({"plans(level,max_segments)": plans}));
	total
}

pub fn replay(_ctx: &Ctx, check: &str, input: &Value) -> Vec<Violation> {
	match super::input_family(input) {
		Some(f) => by_family!(f, c09_replay(check, input)),
		None => vec![],
	}
}
