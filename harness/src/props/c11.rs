//! C11 driver: BFS to fixpoint over the authority editor, per context.

use crate::by_family;
use crate::engine::{run_shards, Ctx, Report, Violation};
use crate::fam::{Family, Kind};
use crate::model::{domains, Refs};
use serde_json::{json, Value};
use std::collections::HashSet;

macro_rules! ops_for {
	($m:ident, $f:expr, $level:expr) => {{
		use crate::fam::$m::AOp;
		let mut ops: Vec<AOp> = Vec::new();
		// "u"/"%75", "h"/"%68", "[::1]"/"[::01]"... : different spellings, some equal under ==
		let mut us: Vec<Option<&str>> = vec![None, Some(""), Some("u"), Some("%75"), Some("u:p"), Some("user:password"), Some("%7e%c3%a9"), Some(":"), Some(":p")];
		// "caf%c3%a9": escapes spelled with lower-case hex digits (the text must be kept as given)
		let mut hs: Vec<&str> = vec!["", "h", "%68", "H", "[::1]", "example.org", "1.2.3.4", "caf%c3%a9", "%7euser", "[v1.x:y]"];
		// the grammar puts no bound on the number of digits of a port
		let mut ps: Vec<Option<&str>> = vec![None, Some(""), Some("8"), Some("8080"), Some("065535"), Some("18446744073709551616")];
		if $level >= 1 {
			us.extend([Some("::"), Some("%41")]);
			hs.extend(["[v1.a:b]", "%41", "[1:2::8]"]);
		}
		if $f == Family::Iri {
			us.push(Some("é"));
			hs.push("é");
		}
		for u in us {
			ops.push(AOp::SetUserinfo(u.map(domains::b)));
		}
		for h in hs {
			ops.push(AOp::SetHost(domains::b(h)));
		}
		for p in ps {
			ops.push(AOp::SetPort(p.map(domains::b)));
		}
		ops
	}};
}

pub fn contexts() -> Vec<(Vec<u8>, Vec<u8>)> {
	vec![
		(domains::b("s://"), domains::b("/p?q#f")),
		(domains::b("//"), domains::b("")),
		(domains::b("s://"), domains::b("")),
		(domains::b("//"), domains::b("/a:b//c?@:#@:")),
		// an empty path: the authority is directly followed by a query / fragment holding '@' ':' '/'
		(domains::b("s://"), domains::b("?@:/")),
		(domains::b("//"), domains::b("#@:/")),
		(domains::b("s://"), domains::b("/@:")),
		// rests of 1, 2 and 4 bytes (every relation between the lengths of splice, old text and tail)
		(domains::b("//"), domains::b("/")),
		(domains::b("//"), domains::b("?q")),
		(domains::b("s://"), domains::b("#fff")),
		// a path that starts with an empty segment (after an authority that may become empty)
		(domains::b("s://"), domains::b("//foo?q#f")),
		(domains::b("//"), domains::b("//")),
	]
}

macro_rules! bfs {
	($m:ident, $f:expr, $ctx:expr, $refs:expr, $prefix:expr, $rest:expr, $level:expr, $max_depth:expr) => {{
		use crate::fam::$m::{c11_input, c11_step, AOp};
		let mut r = Report::new();
		let ops: Vec<AOp> = ops_for!($m, $f, $level);
		let mut seen: HashSet<Vec<u8>> = HashSet::new();
		let mut frontier: Vec<(Vec<u8>, Vec<u8>, Vec<AOp>)> = Vec::new();
		for (a, _) in domains::authorities($f, $level) {
			if $refs.valid($f, Kind::Authority, &a) && seen.insert(a.clone()) {
				frontier.push((a.clone(), a, vec![]));
			}
		}
		r.count("initial_states", frontier.len() as u64);
		let mut vs = Vec::new();
		let mut depth = 0usize;
		while !frontier.is_empty() && depth < $max_depth {
			let mut next = Vec::new();
			for (state, init, hist) in &frontier {
				r.states += 1;
				for op in &ops {
					r.transitions += 1;
					r.evaluations += 1;
					let res = c11_step($prefix, $rest, init, hist, state, op, &mut vs);
					if r.transitions % 5003 == 1 {
						r.sample(c11_input($prefix, $rest, init, hist, op, "RiRefBuf"));
					}
					for v in vs.drain(..) {
						r.violate(v);
					}
					if let Some(na) = res {
						if seen.insert(na.clone()) {
							let mut h = hist.clone();
							h.push(op.clone());
							next.push((na, init.clone(), h));
						}
					}
				}
				if $ctx.out_of_time() {
					r.cap(format!("wall clock reached at depth {depth}"));
					break;
				}
			}
			depth += 1;
			r.count(&format!("depth{}_new_states", depth), next.len() as u64);
			frontier = next;
		}
		if !frontier.is_empty() {
			r.cap(format!("depth bound {} reached with {} unexpanded states", $max_depth, frontier.len()));
		} else {
			r.count("fixpoint_reached", 1);
		}
		r.distinct_nontrivial = r.transitions;
		r.traces = r.transitions;
		r
	}};
}

pub fn run(ctx: &Ctx) -> Report {
	let refs = Refs::new(&ctx.root);
	let mut total = Report::new();
	total.rule = "explicit-state BFS to fixpoint: state = authority text inside a fixed context; initial states = product AUTH; transitions = set_userinfo/set_host/set_port of the real AuthorityMut over an argument alphabet (absent, empty, shorter, equal, longer, IP-literal, multi-byte); each transition executed on a fresh handle and as the last call of the BFS history through ONE handle, on RiRefBuf and RiBuf; the handle is read (as_authority, Deref, twice; into_authority) after the call; a violating transition is not expanded. non-trivial = distinct (context, state, op)".into();
	let level = ctx.pick(0u8, 1u8);
	let max_depth = ctx.pick(6usize, 12usize);
	let mut jobs: Vec<(Family, Vec<u8>, Vec<u8>)> = Vec::new();
	for f in Family::active() {
		for (p, s) in contexts() {
			jobs.push((f, p, s));
		}
	}
	let r = run_shards(ctx, jobs.len(), |ji| {
		let (f, prefix, rest) = &jobs[ji];
		match f {
			Family::Uri => bfs!(uri, Family::Uri, ctx, refs, prefix, rest, level, max_depth),
			Family::Iri => bfs!(iri, Family::Iri, ctx, refs, prefix, rest, level, max_depth),
		}
	});
	total.merge(r);
	total.info.insert("bounds".into(), json!({"alphabet_level": level, "max_depth": max_depth, "contexts": jobs.len()}));
	total
}

pub fn replay(_ctx: &Ctx, _check: &str, input: &Value) -> Vec<Violation> {
	match super::input_family(input) {
		Some(f) => by_family!(f, c11_replay(input)),
		None => vec![],
	}
}
