//! C01 driver: W-method conformance of the compiled recognisers against the reference DFAs.

use crate::by_family;
use crate::engine::{bytes_json, json_bytes, lossy, run_shards, Ctx, Report, Violation};
use crate::fam::{validated_types, Family, Kind};
use crate::model::wmethod::{syms_to_bytes, Suite};
use crate::model::{ref_valid, rule_of, selftest, Refs};
use serde_json::{json, Value};

fn bytes_ty(f: Family, k: Kind) -> bool {
	f == Family::Uri || matches!(k, Kind::Scheme | Kind::Port)
}

fn input(f: Family, k: Kind, b: &[u8]) -> Value {
	json!({"fam": f.name(), "kind": k.name(), "text": bytes_json(b), "config": config_name()})
}

pub fn config_name() -> String {
	std::env::var("VERIF_C01_CONFIG").unwrap_or_else(|_| "warm".to_string())
}

fn tyname(f: Family, k: Kind) -> String {
	format!("{}::{}", f.name(), k.name())
}

/// One trace: borrowed `new` verdict + identity observations.
fn check_trace(f: Family, k: Kind, b: &[u8], expect: bool, out: &mut Vec<Violation>) {
	let (acc, ident) = by_family!(f, c01_new(k, b));
	if acc != expect {
		out.push(
			Violation::new("C01", "suite", "new", input(f, k, b))
				.feat("type", tyname(f, k))
				.feat("direction", if acc { "false_accept" } else { "false_reject" })
				.obs(if acc { "accepted" } else { "rejected" })
				.exp(if expect { "accepted (derivable from the RFC production)" } else { "rejected (not derivable)" }),
		);
	} else if !ident {
		out.push(
			Violation::new("C01", "suite", "identity", input(f, k, b))
				.feat("type", tyname(f, k))
				.obs("value / error payload is not the caller's input slice")
				.exp("Ok(value) occupies exactly the input; Err carries the untouched input"),
		);
	}
}

fn check_routes(f: Family, k: Kind, b: &[u8], expect: bool, out: &mut Vec<Violation>) -> u64 {
	let mut probs = Vec::new();
	let n = by_family!(f, c01_routes(k, b, expect, &mut probs));
	let v = by_family!(f, c01_validate(k, b));
	if v != expect {
		probs.push(("validate".to_string(), format!("returned {v}")));
	}
	for (route, prob) in probs {
		out.push(
			Violation::new("C01", "routes", &route, input(f, k, b))
				.feat("type", tyname(f, k))
				.obs(prob)
				.exp(if expect { "accepted, text kept" } else { "rejected, input handed back" }),
		);
	}
	n + 1
}

/// Ill-formed UTF-8 sequences spliced into otherwise valid prefixes (from-bytes routes).
fn bad_utf8() -> Vec<Vec<u8>> {
	vec![
		vec![0x80],
		vec![0xBF],
		vec![0xC3],
		vec![0xE2, 0x82],
		vec![0xF0, 0x9F, 0x98],
		vec![0xC0, 0x80],
		vec![0xC1, 0x81],
		vec![0xE0, 0x80, 0x80],
		vec![0xED, 0xA0, 0x80],
		vec![0xF4, 0x90, 0x80, 0x80],
		vec![0xF5, 0x80, 0x80, 0x80],
		vec![0xFF],
		vec![0xFE],
	]
}

pub fn run(ctx: &Ctx) -> Report {
	let refs = Refs::new(&ctx.root);
	let mut total = Report::new();
	total.rule = "W-method suite (S ∪ S·B)·Σ^{<=m}·W of the minimal reference DFA of each of the 20 types, every trace replayed against the compiled checked constructor; B = all 256 bytes (URI family) / lowest, highest and one interior scalar of every maximal interval of the reference partition (IRI family); Σ in the middle = one representative per behavioural class (or B where stated); plus pumping traces access(s).a^k.w (k up to 65) for every class a on which state s loops (repetition bounds), all construction routes on the class-alphabet m=0 suite, all short byte strings, ill-formed UTF-8 splices for the from-bytes routes, and special scalars (Unicode white space, BOM, bidi / zero-width controls, case-mapping oddities, block boundaries) at the first, middle and last position of every state's access string. distinct_nontrivial counts conservatively the distinct strings of the transition cover S ∪ S·B (each continued by every W suffix).".into();
	let types = validated_types();
	let mut per_type = serde_json::Map::new();
	for (f, k) in types {
		let d = refs.dfa(f, k);
		let sp = refs.spec(if matches!(k, Kind::Scheme | Kind::Port) { Family::Uri } else { f });
		// model self-check: DFA vs direct derivation matcher
		if let Err(e) = selftest::dfa_vs_matcher(&sp.grammar, &d, rule_of(f, k), if d.states() > 20 { 2 } else { 4 }) {
			panic!("reference model self-check failed: {e}");
		}
		let bt = bytes_ty(f, k);
		let suite = Suite::new(&d, bt);
		let n_states = d.states();
		// plan: (m, middle alphabet)
		let mut plans: Vec<(u32, Vec<u32>, &str)> = Vec::new();
		if ctx.quick() {
			plans.push((1, suite.class_reps.clone(), "K"));
		} else {
			plans.push((1, suite.boundary.clone(), "B"));
			plans.push((2, suite.class_reps.clone(), "K"));
			if n_states <= 4 {
				plans.push((3, suite.class_reps.clone(), "K"));
				plans.push((2, suite.boundary.clone(), "B"));
			}
		}
		let mut type_traces = 0u64;
		let mut acc_traces = 0u64;
		for (m, middle, mname) in &plans {
			let r = run_shards(ctx, n_states, |ai| {
				let mut r = Report::new();
				let mut vs = Vec::new();
				let mut buf = Vec::new();
				let mut accn = 0u64;
				suite.for_each_trace(ai, *m, middle, |syms, expect| {
					syms_to_bytes(syms, bt, &mut buf);
					r.traces += 1;
					if expect {
						accn += 1;
					}
					check_trace(f, k, &buf, expect, &mut vs);
					if !vs.is_empty() {
						for v in vs.drain(..) {
							r.violate(v);
						}
					}
				});
				r.count("accepting_traces", accn);
				r.evaluations = r.traces;
				r
			});
			type_traces += r.traces;
			acc_traces += r.counters.get("accepting_traces").copied().unwrap_or(0);
			total.merge(r);
			total.count(&format!("suite_m{}_{}_types", m, mname), 1);
			if ctx.out_of_time() {
				total.cap(format!("wall clock reached in suite of {} (m={m}, middle={mname})", tyname(f, k)));
				return total;
			}
		}
		// pumping: wherever the reference DFA loops on a class (an unbounded repetition of the
		// grammar), the implementation must loop too - a repetition BOUND (a counter with up to 64
		// extra states) is outside what a small m can see. access(s) . a^k . w for every loop.
		{
			let r = run_shards(ctx, n_states, |ai| {
				let mut r = Report::new();
				let mut vs = Vec::new();
				let mut buf = Vec::new();
				let (acc, st) = &suite.access[ai];
				for a in &suite.class_reps {
					if d.step(*st, *a) != Some(*st) {
						continue;
					}
					for reps in [2usize, 3, 4, 5, 6, 7, 8, 9, 15, 16, 17, 32, 64, 65] {
						for w in &suite.w {
							let mut syms = acc.clone();
							syms.extend(std::iter::repeat(*a).take(reps));
							let mut t = *st;
							for x in w {
								syms.push(*x);
								t = d.step(t, *x).unwrap();
							}
							syms_to_bytes(&syms, bt, &mut buf);
							r.traces += 1;
							check_trace(f, k, &buf, d.accept[t as usize], &mut vs);
							for v in vs.drain(..) {
								r.violate(v);
							}
						}
					}
				}
				r.evaluations = r.traces;
				r
			});
			total.count("pumping_traces", r.traces);
			type_traces += r.traces;
			total.merge(r);
		}
		// distinct transition-cover strings
		let mut pset = std::collections::BTreeSet::new();
		for (acc, _) in &suite.access {
			pset.insert(acc.clone());
			for b in &suite.boundary {
				let mut p = acc.clone();
				p.push(*b);
				pset.insert(p);
			}
		}
		total.distinct_nontrivial += pset.len() as u64;
		total.states += n_states as u64;
		total.transitions += (n_states * suite.boundary.len()) as u64;

		// routes on the small suite
		let small = suite.small_suite();
		let shards = 16usize;
		let r = run_shards(ctx, shards, |si| {
			let mut r = Report::new();
			let mut vs = Vec::new();
			let mut buf = Vec::new();
			for (i, (syms, expect)) in small.iter().enumerate() {
				if i % shards != si {
					continue;
				}
				syms_to_bytes(syms, bt, &mut buf);
				r.evaluations += check_routes(f, k, &buf, *expect, &mut vs);
				r.traces += 1;
				for v in vs.drain(..) {
					r.violate(v);
				}
			}
			r
		});
		total.count("route_suite_strings", small.len() as u64);
		total.count("route_executions", r.evaluations);
		total.merge(r);

		// from-bytes constructors and byte-level serde routes: ill-formed UTF-8 (IRI family)
		if !bt {
			let bad = bad_utf8();
			let mut r = Report::new();
			let mut vs = Vec::new();
			let mut buf = Vec::new();
			for (acc, _) in &suite.access {
				syms_to_bytes(acc, bt, &mut buf);
				let base = buf.clone();
				// splice at every char boundary
				let mut cuts: Vec<usize> = std::str::from_utf8(&base).unwrap().char_indices().map(|(i, _)| i).collect();
				cuts.push(base.len());
				for c in cuts {
					for bseq in &bad {
						let mut t = base[..c].to_vec();
						t.extend_from_slice(bseq);
						t.extend_from_slice(&base[c..]);
						r.evaluations += check_routes(f, k, &t, false, &mut vs);
						r.traces += 1;
						for v in vs.drain(..) {
							r.violate(v);
						}
					}
				}
			}
			total.count("ill_formed_utf8_splices", r.traces);
			total.merge(r);
		}
		// special scalars (white space that trim() strips, BOM, zero-width and bidi controls, case-mapping
		// oddities, first/last scalar of every ucschar / iprivate block and their neighbours) in first,
		// middle and last position of the access string of every state, through EVERY route
		if !bt {
			let specials = crate::model::domains::boundary_and_special_scalars();
			let r = run_shards(ctx, 16, |si| {
				let mut r = Report::new();
				let mut vs = Vec::new();
				let mut buf = Vec::new();
				for (ai, (acc, _)) in suite.access.iter().enumerate() {
					if ai % 16 != si {
						continue;
					}
					syms_to_bytes(acc, bt, &mut buf);
					let base = String::from_utf8(buf.clone()).unwrap();
					let mid = base.char_indices().map(|(i, _)| i).nth(base.chars().count() / 2).unwrap_or(0);
					for x in &specials {
						let mut cands = vec![format!("{x}{base}"), format!("{base}{x}")];
						if mid > 0 {
							cands.push(format!("{}{x}{}", &base[..mid], &base[mid..]));
						}
						for t in cands {
							let expect = ref_valid(&d, f, k, t.as_bytes());
							r.evaluations += check_routes(f, k, t.as_bytes(), expect, &mut vs);
							r.traces += 1;
							for v in vs.drain(..) {
								r.violate(v);
							}
						}
					}
				}
				r
			});
			total.count("special_scalar_route_strings", r.traces);
			total.merge(r);
		}
		if (f, k) == (Family::Iri, Kind::Ri) || (f, k) == (Family::Iri, Kind::RiRef) || (bt && n_states <= 4) {
			// every byte string of length <= L through every route
			let l = ctx.pick(2usize, 3usize);
			let r = run_shards(ctx, 256, |first| {
				let mut r = Report::new();
				let mut vs = Vec::new();
				let mut run_one = |t: &[u8], r: &mut Report| {
					let expect = ref_valid(&d, f, k, t);
					r.evaluations += check_routes(f, k, t, expect, &mut vs);
					r.traces += 1;
					for v in vs.drain(..) {
						r.violate(v);
					}
				};
				if first == 0 {
					run_one(&[], &mut r);
				}
				let mut t = vec![first as u8];
				run_one(&t, &mut r);
				if l >= 2 {
					for b1 in 0..=255u8 {
						t.truncate(1);
						t.push(b1);
						run_one(&t, &mut r);
						if l >= 3 && (f, k) == (Family::Iri, Kind::RiRef) {
							for b2 in 0..=255u8 {
								t.truncate(2);
								t.push(b2);
								run_one(&t, &mut r);
							}
						}
					}
				}
				r
			});
			total.count("short_byte_strings", r.traces);
			total.merge(r);
		}

		// thorough: every Unicode scalar value out of every state, suffix set W (m = 0)
		if !ctx.quick() && !bt {
			let r = run_shards(ctx, n_states, |ai| {
				let mut r = Report::new();
				let mut vs = Vec::new();
				let mut buf = Vec::new();
				let (acc, st) = &suite.access[ai];
				let mut syms: Vec<u32> = acc.clone();
				let al = acc.len();
				for c in 0u32..=0x10FFFF {
					if (0xD800..=0xDFFF).contains(&c) {
						continue;
					}
					let s1 = d.step(*st, c).unwrap();
					for w in &suite.w {
						syms.truncate(al);
						syms.push(c);
						let mut t = s1;
						for x in w {
							syms.push(*x);
							t = d.step(t, *x).unwrap();
						}
						syms_to_bytes(&syms, bt, &mut buf);
						r.traces += 1;
						check_trace(f, k, &buf, d.accept[t as usize], &mut vs);
						for v in vs.drain(..) {
							r.violate(v);
						}
					}
				}
				r.evaluations = r.traces;
				r
			});
			total.count("full_scalar_sweep_traces", r.traces);
			total.merge(r);
			if ctx.out_of_time() {
				total.cap(format!("wall clock reached in full-scalar sweep of {}", tyname(f, k)));
				return total;
			}
		}
		per_type.insert(
			tyname(f, k),
			json!({
				"rule": rule_of(f, k), "ref_states": n_states, "boundary_alphabet": suite.boundary.len(),
				"class_alphabet": suite.class_reps.len(), "W": suite.w.len(),
				"transition_cover_strings": pset.len(), "suite_traces": type_traces, "accepting_traces": acc_traces,
				"plans": plans.iter().map(|(m, _, n)| format!("m={m},middle={n}")).collect::<Vec<_>>(),
			}),
		);
		if total.samples.len() < 10 {
			if let Some((syms, e)) = small.get(small.len() / 2) {
				let mut buf = Vec::new();
				syms_to_bytes(syms, bt, &mut buf);
				total.sample(json!({"type": tyname(f, k), "trace": bytes_json(&buf), "expected_accept": e}));
			}
		}
	}
	// cross-type construction routes (TryFrom / try_into / as_* between the eight URI/IRI types):
	// every valid IRI reference of RAW(n); success exactly when the target grammar accepts the text
	{
		use crate::model::{domains, syntax, FamRefs};
		let fr_uri = FamRefs::new(refs, Family::Uri);
		let alpha = domains::raw_alphabet(Family::Iri, 0);
		let d = refs.dfa(Family::Iri, Kind::RiRef);
		let n = ctx.pick(5usize, 6usize);
		let r = run_shards(ctx, domains::raw_shard_count(alpha.len()), |si| {
			let mut r = Report::new();
			let mut vs = Vec::new();
			domains::for_each_raw(&alpha, n, si, |t| {
				if !ref_valid(&d, Family::Iri, Kind::RiRef, t) {
					return;
				}
				r.traces += 1;
				r.evaluations += super::c13::conv_case_for("C01", t, fr_uri.valid(Kind::Ri, t), fr_uri.valid(Kind::RiRef, t), syntax::split(t).scheme.is_some(), &mut vs);
				for v in vs.drain(..) {
					r.violate(v);
				}
			});
			r
		});
		total.count("cross_type_route_inputs", r.traces);
		total.merge(r);
		let fr_iri = FamRefs::new(refs, Family::Iri);
		let mut r = Report::new();
		let mut vs = Vec::new();
		for t in domains::special_scalar_texts() {
			if !fr_iri.valid(Kind::RiRef, &t) {
				continue;
			}
			r.traces += 1;
			r.evaluations += super::c13::conv_case_for("C01", &t, fr_uri.valid(Kind::Ri, &t), fr_uri.valid(Kind::RiRef, &t), syntax::split(&t).scheme.is_some(), &mut vs);
			for v in vs.drain(..) {
				r.violate(v);
			}
		}
		total.count("cross_type_special_scalar_inputs", r.traces);
		total.merge(r);
	}
	total.info.insert("per_type".into(), Value::Object(per_type));
	total.info.insert("config".into(), json!(config_name()));
	if let Ok(c) = std::env::var("VERIF_C01_COLD") {
		total.info.insert("cold_cache_comparison".into(), json!(c));
	}
	total.assumptions.push("completeness of the suite holds for implementations that are DFAs with at most n_T + m states over the suite alphabet (the generated validate is a `match state` loop)".into());
	total.assumptions.push("reference DFAs are compiled from /verif/spec (own transcription of RFC 3986 App. A / RFC 3987 2.2) and cross-checked against a direct derivation matcher".into());
	total
}

pub fn replay(ctx: &Ctx, check: &str, input: &Value) -> Vec<Violation> {
	let refs = Refs::new(&ctx.root);
	let mut out = Vec::new();
	if check == "conversion" {
		if let Some(t) = json_bytes(&input["text"]) {
			let fr_uri = crate::model::FamRefs::new(refs, Family::Uri);
			super::c13::conv_case_for("C01", &t, fr_uri.valid(Kind::Ri, &t), fr_uri.valid(Kind::RiRef, &t), crate::model::syntax::split(&t).scheme.is_some(), &mut out);
		}
		return out;
	}
	let (f, k, b) = match (super::input_family(input), input["kind"].as_str().and_then(Kind::parse), json_bytes(&input["text"])) {
		(Some(f), Some(k), Some(b)) => (f, k, b),
		_ => return out,
	};
	let expect = refs.valid(f, k, &b);
	match check {
		"suite" => check_trace(f, k, &b, expect, &mut out),
		_ => {
			check_routes(f, k, &b, expect, &mut out);
		}
	}
	let _ = lossy(&b);
	out
}
