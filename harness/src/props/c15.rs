//! C15 and C16 drivers.

use crate::by_family;
use crate::engine::{run_shards, Ctx, Report, Violation};
use crate::fam::{Family, Kind};
use crate::model::{domains, ref_valid, FamRefs, Refs};
use serde_json::{json, Value};

pub fn iri_domain(f: Family, fr: &FamRefs, n: usize, level: u8) -> Vec<Vec<u8>> {
	// %FF / %FE: octets that are not UTF-8; %C0%AF: overlong '/', %2F: encoded '/'
	let mut segs: Vec<&str> = vec!["", ".", "..", "a", "b", "a:b", "%FF"];
	if level == 0 {
		segs = vec!["", "..", "a", "b", "%FF", "%FE", "%61", "1:b"];
	}
	if level >= 2 {
		// the full alphabet, used with a smaller segment bound
		segs = vec!["", ".", "..", "a", "b", "a:b", "1:b", "%FF", "%FE", "%C0%AF", "%2F", "%61"];
	}
	if f == Family::Iri && level >= 1 {
		segs.push("é");
	}
	let segs: Vec<Vec<u8>> = segs.into_iter().map(domains::b).collect();
	let paths = domains::paths(&segs, n);
	let schemes = vec![Some(domains::b("s")), Some(domains::b("t"))];
	let auths = vec![None, Some(domains::b("")), Some(domains::b("h")), Some(domains::b("g"))];
	domains::references(&schemes, &auths, &paths, &[None, Some(domains::b("q"))], &[None, Some(domains::b("f"))])
		.into_iter()
		.map(|(t, _)| t)
		.filter(|t| fr.valid(Kind::Ri, t))
		.collect()
}

pub fn run_c15(ctx: &Ctx) -> Report {
	let refs = Refs::new(&ctx.root);
	let mut total = Report::new();
	total.rule = "all ordered pairs (a, b) of URIs/IRIs built from scheme {s,t} x authority {none, '', h, g} x PATH(n) over {'' .. a b (. a:b é)} x {no query, q} x {no fragment, f}, plus long paths, plus all ordered pairs of a second domain of authority spellings (u@h / u%40h, h:80 / h%3A80, [::1] / %5B%3A%3A1%5D, h / H / %68, s / S): relative_to, validity of the result, resolution of the result against b compared with a by the library's == and by the reference equivalence; non-trivial = distinct ordered pair".into();
	let (n, level) = ctx.pick((2usize, 0u8), (3usize, 1u8));
	for f in Family::active() {
		let fr = FamRefs::new(refs, f);
		let mut dom = iri_domain(f, &fr, n, level);
		// beyond the 16-segment inline buffers (relative_to and the normalised-segment iterator)
		for lp in domains::long_paths(true) {
			for pre in ["s://h", "s:"] {
				for suf in ["", "?q"] {
					let mut t = pre.as_bytes().to_vec();
					t.extend_from_slice(&lp);
					t.extend_from_slice(suf.as_bytes());
					if fr.valid(Kind::Ri, &t) {
						dom.push(t);
					}
				}
			}
		}
		if !ctx.quick() {
			// thorough: additionally the full segment alphabet at PATH(2)
			let known: std::collections::HashSet<Vec<u8>> = dom.iter().cloned().collect();
			dom.extend(iri_domain(f, &fr, 2, 2).into_iter().filter(|t| !known.contains(t)));
		}
		total.count(&format!("{}_values", f.name()), dom.len() as u64);
		// second domain, all ordered pairs again: authorities that differ as components but not as
		// decoded text (u@h / u%40h, h:80 / h%3A80, [::1] / %5B%3A%3A1%5D), host and scheme case
		let o = |x: &[&str]| -> Vec<Option<Vec<u8>>> { x.iter().map(|s| Some(domains::b(s))).collect() };
		let dom2: Vec<Vec<u8>> = domains::references(
			&o(&["s", "S"]),
			&o(&["h", "H", "u@h", "u%40h", "h:80", "h%3A80", "[::1]", "%5B%3A%3A1%5D", "%68"]),
			&["", "/", "/a", "/a/b", "/b"].iter().map(|s| domains::b(s)).collect::<Vec<_>>(),
			&[None, Some(domains::b("q"))],
			&[None],
		)
		.into_iter()
		.map(|(t, _)| t)
		.filter(|t| fr.valid(Kind::Ri, t))
		.collect();
		total.count(&format!("{}_authority_spelling_values", f.name()), dom2.len() as u64);
		// third domain: segments of the same WRITTEN length whose decodings are prefixes of one another
		// (%61 / abc / a), in the compared directories and as last segments
		let dom3: Vec<Vec<u8>> = domains::references(
			&o(&["s"]),
			&o(&["h"]),
			&domains::paths(&["%61", "abc", "a", "%41", "x", "%2E", "%2E%2E"].iter().map(|s| domains::b(s)).collect::<Vec<_>>(), 2).into_iter().filter(|p| p.starts_with(b"/")).collect::<Vec<_>>(),
			&[None, Some(domains::b("")), Some(domains::b("k:v")), Some(domains::b("k/v"))],
			&[None, Some(domains::b("f")), Some(domains::b("k:v"))],
		)
		.into_iter()
		.map(|(t, _)| t)
		.filter(|t| fr.valid(Kind::Ri, t))
		.collect();
		total.count(&format!("{}_written_length_values", f.name()), dom3.len() as u64);
		// fourth domain: ordinary segments that merely start or end with dots, next to real dot segments
		let dom4: Vec<Vec<u8>> = domains::references(
			&o(&["s"]),
			&o(&["h"]),
			&domains::paths(&["..", "..a", "...", "a..", ".", "c"].iter().map(|s| domains::b(s)).collect::<Vec<_>>(), 3).into_iter().filter(|p| p.starts_with(b"/")).collect::<Vec<_>>(),
			&[None],
			&[None],
		)
		.into_iter()
		.map(|(t, _)| t)
		.filter(|t| fr.valid(Kind::Ri, t))
		.collect();
		total.count(&format!("{}_dotted_segment_values", f.name()), dom4.len() as u64);
		for dom in [&dom, &dom2, &dom3, &dom4] {
		let shards = 128usize;
		let r = run_shards(ctx, shards, |si| {
			let mut r = Report::new();
			let mut vs = Vec::new();
			for (i, a) in dom.iter().enumerate() {
				if i % shards != si {
					continue;
				}
				r.states += 1;
				for b in dom.iter() {
					let e = by_family!(f, c15_case(a, b, &fr, &mut vs));
					r.evaluations += e;
					r.transitions += e;
					if r.transitions % 250007 == 1 {
						r.sample(by_family!(f, c15_input(a, b)));
					}
					for v in vs.drain(..) {
						r.violate(v);
					}
				}
				if ctx.out_of_time() {
					r.cap("wall clock reached");
					break;
				}
			}
			r.distinct_nontrivial = r.transitions;
			r.traces = r.transitions;
			r
		});
		total.merge(r);
		}
	}
	total.info.insert("bounds".into(), json!({"path_segments_max": n, "alphabet_level": level}));
	total
}

pub fn replay_c15(ctx: &Ctx, _check: &str, input: &Value) -> Vec<Violation> {
	let refs = Refs::new(&ctx.root);
	match super::input_family(input) {
		Some(f) => {
			let fr = FamRefs::new(refs, f);
			by_family!(f, c15_replay(input, &fr))
		}
		None => vec![],
	}
}

pub fn run_c16(ctx: &Ctx) -> Report {
	let refs = Refs::new(&ctx.root);
	let mut total = Report::new();
	total.rule = "Path::suffix on all ordered pairs of PATH(n) over {'' . .. a b a:b %61 %FF}; Ri/RiRef::suffix on all ordered pairs of a reference domain with equal/different scheme and authority (incl. percent-encoded spellings); base() on every valid reference of RAW(7) and of the reference domain; non-trivial = distinct ordered pair / distinct text".into();
	let n = ctx.pick(3usize, 4usize);
	for f in Family::active() {
		let fr = FamRefs::new(refs, f);
		let dpath = refs.dfa(f, Kind::Path);
		// "x%62" / "X%62": differ only in the case of a letter outside the %XX triplet
		// (IRI: a character written raw and written as escapes - the same segment)
		let mut segs: Vec<Vec<u8>> = ["", ".", "..", "a", "b", "a:b", "%61", "%FF", "x%62", "X%62", "xb"].iter().map(|s| domains::b(s)).collect();
		if f == Family::Iri && domains::wide() == 0 {
			segs.push(domains::b("é"));
			segs.push(domains::b("%C3%A9"));
		}
		let paths: Vec<Vec<u8>> = domains::paths(&segs, n).into_iter().filter(|p| ref_valid(&dpath, f, Kind::Path, p)).collect();
		// quick: all pairs of PATH(3) would be 9e6; keep the prefix side at PATH(2)
		let mut prefixes: Vec<Vec<u8>> = domains::paths(&segs, n - 1).into_iter().filter(|p| ref_valid(&dpath, f, Kind::Path, p)).collect();
		let mut paths = paths;
		for abs in [false, true] {
			for lp in domains::long_paths(abs) {
				paths.push(lp.clone());
				prefixes.push(lp);
			}
		}
		total.count(&format!("{}_paths", f.name()), paths.len() as u64);
		let shards = 128usize;
		let r = run_shards(ctx, shards, |si| {
			let mut r = Report::new();
			let mut vs = Vec::new();
			for (i, p) in paths.iter().enumerate() {
				if i % shards != si {
					continue;
				}
				r.states += 1;
				for q in &prefixes {
					r.evaluations += by_family!(f, c16_path_case(p, q, &mut vs));
					r.transitions += 1;
				}
				for v in vs.drain(..) {
					r.violate(v);
				}
			}
			r
		});
		total.merge(r);
		// reference pairs
		// "S": a scheme that differs from "s" by case only (schemes are compared literally)
		let schemes = vec![None, Some(domains::b("s")), Some(domains::b("S")), Some(domains::b("t"))];
		let auths = vec![None, Some(domains::b("")), Some(domains::b("h")), Some(domains::b("%68")), Some(domains::b("g")), Some(domains::b("u@h")), Some(domains::b("u%40h"))];
		let rpaths: Vec<Vec<u8>> = ["", "/", "/a", "/a/", "/a/b", "/a/./b/c", "/%61/b", "a", "a/b", "/a//b", "//a", "/.//a", "a:b", "./a:b", "/b"].iter().map(|s| domains::b(s)).collect();
		let dom: Vec<Vec<u8>> = domains::references(&schemes, &auths, &rpaths, &[None, Some(domains::b("q"))], &[None, Some(domains::b("f"))])
			.into_iter()
			.map(|(t, _)| t)
			.filter(|t| fr.valid(Kind::RiRef, t))
			.collect();
		total.count(&format!("{}_reference_values", f.name()), dom.len() as u64);
		let r = run_shards(ctx, shards, |si| {
			let mut r = Report::new();
			let mut vs = Vec::new();
			for (i, a) in dom.iter().enumerate() {
				if i % shards != si {
					continue;
				}
				r.states += 1;
				for b in &dom {
					r.evaluations += by_family!(f, c16_ref_case(a, b, &mut vs));
					r.transitions += 1;
				}
				r.evaluations += by_family!(f, c16_base_case(a, &mut vs));
				for v in vs.drain(..) {
					r.violate(v);
				}
				if i % 97 == 3 {
					r.sample(json!({"fam": f.name(), "value": String::from_utf8_lossy(a)}));
				}
			}
			r
		});
		total.merge(r);
		// base() on RAW
		let alpha = domains::raw_alphabet(f, 0);
		let d = refs.dfa(f, Kind::RiRef);
		let rawn = ctx.pick(6usize, 7usize);
		let r = run_shards(ctx, domains::raw_shard_count(alpha.len()), |si| {
			let mut r = Report::new();
			let mut vs = Vec::new();
			domains::for_each_raw(&alpha, rawn, si, |t| {
				if !ref_valid(&d, f, Kind::RiRef, t) {
					return;
				}
				r.evaluations += by_family!(f, c16_base_case(t, &mut vs));
				r.transitions += 1;
				for v in vs.drain(..) {
					r.violate(v);
				}
			});
			r
		});
		total.count(&format!("{}_base_raw_values", f.name()), r.transitions);
		total.merge(r);
		if ctx.out_of_time() {
			total.cap(format!("wall clock reached after {}", f.name()));
			break;
		}
	}
	total.distinct_nontrivial = total.transitions;
	total.traces = total.transitions;
	total.info.insert("bounds".into(), json!({"path_segments_max": n}));
	total
}

pub fn replay_c16(_ctx: &Ctx, check: &str, input: &Value) -> Vec<Violation> {
	match super::input_family(input) {
		Some(f) => by_family!(f, c16_replay(check, input)),
		None => vec![],
	}
}
