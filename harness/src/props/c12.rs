//! C12 driver: sweep PATH(n) for both families.

use crate::by_family;
use crate::engine::{run_shards, Ctx, Report, Violation};
use crate::fam::{Family, Kind};
use crate::model::{domains, Refs};
use serde_json::{json, Value};

pub fn run(ctx: &Ctx) -> Report {
	let refs = Refs::new(&ctx.root);
	let mut total = Report::new();
	total.rule = "every path text {relative,absolute} x SEG^{<=n} accepted by the reference path DFA (SEG = structural alphabets, and segments of 7..9 / 15..17 / 31..33 bytes); one case = one path with every path query and every interleaving of next/next_back two steps beyond exhaustion; non-trivial = distinct valid path text with at least one segment".into();
	// (alphabet level, max segments)
	// level 9 = segments whose lengths sit on and around 8-, 16- and 32-byte blocks (plus "" and "a")
	let plans: Vec<(u8, usize)> = if ctx.quick() { vec![(0, 6), (1, 4), (9, 3)] } else { vec![(0, 8), (1, 5), (2, 4), (9, 4)] };
	for f in Family::active() {
		let mut vs = Vec::new();
		total.evaluations += by_family!(f, c12_constants(&mut vs));
		for v in vs {
			total.violate(v);
		}
		let d = refs.dfa(f, Kind::Path);
		for (level, n) in &plans {
			let alpha = if *level == 9 {
				let mut a = vec![Vec::new(), b"a".to_vec()];
				a.extend(domains::block_length_segments());
				a
			} else {
				domains::seg_alphabet(f, *level)
			};
			let mut all = domains::paths(&alpha, *n);
			if *level == 0 {
				all.extend(domains::long_paths(false));
				all.extend(domains::long_paths(true));
				// every printable ASCII character, one at a time, in first / inner / last segments
				all.extend(domains::ascii_sweep(&["X", "/X", "X/", "aXb", "a/X/b", "X/a", "a/X", "/a/bX", "Xa/b", "/X/X"]));
			}
			let shards = 64usize;
			let r = run_shards(ctx, shards, |si| {
				let mut r = Report::new();
				let mut vs = Vec::new();
				for (i, t) in all.iter().enumerate() {
					if i % shards != si {
						continue;
					}
					if !crate::model::ref_valid(&d, f, Kind::Path, t) {
						r.count("domain_rejected_by_reference", 1);
						continue;
					}
					let e = by_family!(f, c12_case(t, &mut vs));
					r.evaluations += e;
					r.states += 1;
					r.transitions += e;
					r.traces += 1;
					if t.len() > 1 {
						r.distinct_nontrivial += 1;
					}
					if i % 9973 == 0 {
						r.sample(by_family!(f, c12_input(t)));
					}
					for v in vs.drain(..) {
						r.violate(v);
					}
				}
				r
			});
			total.count(&format!("{}_level{}_n{}_paths", f.name(), level, n), r.states);
			total.merge(r);
			if ctx.out_of_time() {
				total.cap(format!("wall clock reached after {} level {} n {}", f.name(), level, n));
				return total;
			}
		}
	}
	total.info.insert("bounds".into(), json!({"plans(level,max_segments)": plans, "interleaving_steps": "segments+2"}));
	total.assumptions.push("reference path DFA built from /verif/spec ABNF decides domain membership".into());
	total
}

pub fn replay(_ctx: &Ctx, _check: &str, input: &Value) -> Vec<Violation> {
	match super::input_family(input) {
		Some(f) => by_family!(f, c12_replay(input)),
		None => vec![],
	}
}
