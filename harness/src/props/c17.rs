//! C17: compile-time macros accept and produce exactly what the run-time parser does.
//!
//! Program enumeration: every program "one macro invocation on literal l" for l in a finite
//! literal set is compiled by the real rustc with the real proc-macro. Program 1 holds all
//! invocations, one per line; `cargo check --message-format=json` yields the set of lines that
//! carry an error - the macro's acceptance set - in one rustc run. Program 2 holds only the
//! accepted invocations plus a `main` that compares every constant with the run-time parse of
//! the same string; it is built and run.

use crate::engine::{bytes_json, Ctx, Report, Violation};
use crate::fam::{Family, Kind};
use crate::model::domains;
use crate::model::wmethod::{syms_to_bytes, Suite};
use crate::model::Refs;
use serde_json::{json, Value};
use std::collections::{BTreeMap, BTreeSet};
use std::path::{Path, PathBuf};
use std::process::Command;

#[derive(Clone, Copy, PartialEq, Eq, Debug)]
pub enum Mac {
	Uri,
	UriRef,
	Iri,
	IriRef,
}

impl Mac {
	pub const ALL: [Mac; 4] = [Mac::Uri, Mac::UriRef, Mac::Iri, Mac::IriRef];
	pub fn name(self) -> &'static str {
		match self {
			Mac::Uri => "uri",
			Mac::UriRef => "uri_ref",
			Mac::Iri => "iri",
			Mac::IriRef => "iri_ref",
		}
	}
	pub fn ty(self) -> &'static str {
		match self {
			Mac::Uri => "Uri",
			Mac::UriRef => "UriRef",
			Mac::Iri => "Iri",
			Mac::IriRef => "IriRef",
		}
	}
	pub fn fam_kind(self) -> (Family, Kind) {
		match self {
			Mac::Uri => (Family::Uri, Kind::Ri),
			Mac::UriRef => (Family::Uri, Kind::RiRef),
			Mac::Iri => (Family::Iri, Kind::Ri),
			Mac::IriRef => (Family::Iri, Kind::RiRef),
		}
	}
	pub fn parse(s: &str) -> Option<Mac> {
		Mac::ALL.iter().copied().find(|m| m.name() == s)
	}
}

#[derive(Clone, Copy, PartialEq, Eq, Debug)]
pub enum Spelling {
	Escaped,
	Raw,
	RawHashes,
	/// every character as \u{..}, ASCII included
	UnicodeEsc,
	/// every ASCII character as \xNN, the others as \u{..}
	HexEsc,
	/// a backslash-newline continuation (skips the following white space) after the first character
	Continuation,
	/// the literal reaches the macro through a `macro_rules!` that captured it as `$l:literal`
	/// (rustc hands it over wrapped in an invisible group)
	FwdLiteral,
	/// ... captured as `$e:expr`
	FwdExpr,
}

/// Source text of the one macro invocation of a case.
pub fn invocation(c: &Case) -> String {
	let lit = spell(&c.text, c.spelling).unwrap();
	match c.spelling {
		Spelling::FwdLiteral => format!("fwd_l!({}, {lit})", c.mac.name()),
		Spelling::FwdExpr => format!("fwd_e!({}, {lit})", c.mac.name()),
		_ => format!("iref::{}!({lit})", c.mac.name()),
	}
}

const FWD_MACROS: &str = "macro_rules! fwd_l { ($m:ident, $l:literal) => { iref::$m!($l) }; }\nmacro_rules! fwd_e { ($m:ident, $e:expr) => { iref::$m!($e) }; }\n";


fn is_plain(c: char) -> bool {
	!c.is_control() && c != '\u{2028}' && c != '\u{2029}' && c != '\u{FEFF}' && !('\u{200B}'..='\u{200F}').contains(&c) && !('\u{202A}'..='\u{202E}').contains(&c) && !('\u{2066}'..='\u{2069}').contains(&c)
}

/// Rust source spelling of a string literal. None when the spelling cannot express the text.
pub fn spell(text: &str, sp: Spelling) -> Option<String> {
	match sp {
		Spelling::Escaped | Spelling::FwdLiteral | Spelling::FwdExpr => {
			let mut s = String::from("\"");
			for c in text.chars() {
				match c {
					'"' => s.push_str("\\\""),
					'\\' => s.push_str("\\\\"),
					'\n' => s.push_str("\\n"),
					'\t' => s.push_str("\\t"),
					'\r' => s.push_str("\\r"),
					'\0' => s.push_str("\\0"),
					c if is_plain(c) => s.push(c),
					c => s.push_str(&format!("\\u{{{:x}}}", c as u32)),
				}
			}
			s.push('"');
			Some(s)
		}
		Spelling::UnicodeEsc => {
			let mut s = String::from("\"");
			for c in text.chars() {
				s.push_str(&format!("\\u{{{:x}}}", c as u32));
			}
			s.push('"');
			Some(s)
		}
		Spelling::HexEsc => {
			let mut s = String::from("\"");
			for c in text.chars() {
				if (c as u32) < 0x80 {
					s.push_str(&format!("\\x{:02x}", c as u32));
				} else {
					s.push_str(&format!("\\u{{{:X}}}", c as u32));
				}
			}
			s.push('"');
			Some(s)
		}
		Spelling::Continuation => {
			// only when the character after the break is not white space (which the continuation would eat)
			let esc = spell(text, Spelling::Escaped)?;
			let mut it = text.chars();
			let first = it.next()?;
			let second = it.next()?;
			if second.is_whitespace() || first == '\\' || first == '"' || !is_plain(first) || matches!(first, '\n' | '\t' | '\r' | '\0') {
				return None;
			}
			let cut = 1 + first.len_utf8();
			Some(format!("{}\\\n    {}", &esc[..cut], &esc[cut..]))
		}
		Spelling::Raw => {
			if text.contains('"') || !text.chars().all(is_plain) {
				None
			} else {
				Some(format!("r\"{text}\""))
			}
		}
		Spelling::RawHashes => {
			if text.contains("\"##") || !text.chars().all(is_plain) {
				None
			} else {
				Some(format!("r##\"{text}\"##"))
			}
		}
	}
}

/// The same text with the hex digits of every %XX triplet in lower case (None if unchanged).
fn lower_hex(t: &str) -> Option<String> {
	let b = t.as_bytes();
	let mut out = b.to_vec();
	let mut i = 0;
	while i + 2 < b.len() {
		if b[i] == b'%' && b[i + 1].is_ascii_hexdigit() && b[i + 2].is_ascii_hexdigit() {
			out[i + 1] = b[i + 1].to_ascii_lowercase();
			out[i + 2] = b[i + 2].to_ascii_lowercase();
			i += 3;
		} else {
			i += 1;
		}
	}
	if out != b {
		String::from_utf8(out).ok()
	} else {
		None
	}
}

pub struct Case {
	pub mac: Mac,
	pub text: String,
	pub spelling: Spelling,
	/// reference verdict
	pub expect: bool,
}

/// Literal set: the transition cover S ∪ S·K of the reference DFA (every state and every
/// transition over the class alphabet), optionally continued by characterisation suffixes,
/// plus literals that need escaping in Rust source.
pub fn cases(refs: &Refs, quick: bool, warm: bool) -> Vec<Case> {
	let mut out = Vec::new();
	for mac in Mac::ALL {
		let (f, k) = mac.fam_kind();
		let d = refs.dfa(f, k);
		let suite = Suite::new(&d, false);
		let mut texts: BTreeSet<String> = BTreeSet::new();
		let to_text = |syms: &[u32]| -> String {
			if f == Family::Uri {
				// byte symbols >= 0x80 have no one-byte spelling in a str literal: use 'é'
				syms.iter().map(|s| if *s < 0x80 { char::from_u32(*s).unwrap() } else { 'é' }).collect()
			} else {
				let mut b = Vec::new();
				syms_to_bytes(syms, false, &mut b);
				String::from_utf8(b).unwrap()
			}
		};
		let wn = if quick { 1 } else { 4 };
		let ws: Vec<&Vec<u32>> = suite.w.iter().filter(|w| !w.is_empty()).take(wn).collect();
		for (acc, _) in &suite.access {
			texts.insert(to_text(acc));
			for kk in &suite.class_reps {
				let mut p = acc.clone();
				p.push(*kk);
				texts.insert(to_text(&p));
				for w in &ws {
					let mut q = p.clone();
					q.extend_from_slice(w);
					texts.insert(to_text(&q));
				}
			}
			if warm {
				break;
			}
		}
		// characters that need care in Rust source, in valid and invalid positions
		for extra in [
			"s:\"", "s:a\\b", "s:{}", "s:#\"#", "s:%7B%7D", "s:a#\"##x", "s://h/a?q={x}#f", "s:\n", "s:\t", "s:\u{0}", "s:\u{7f}", "s:é", "s:\u{E000}", "s:?\u{E000}",
			"s:\u{FFFD}", "s:\u{10FFFD}", "s:\u{202E}", "//é@é/é?é#é", "s:/\u{1F600}", "a b", "s:a b", "s:%", "s:%4", "s:%41", "s:%zz", "", "#", "?", "s:", ":", "1:", "s://[::1]:80/", "s://[::1/", "s://h:8x/", "<s:a>", "<>", "<../a#b>", "<s:a", "s:a>", "(s:a)", "\"s:a\"", " s:a", "s:a ", "s:a\n",
		] {
			texts.insert(extra.to_string());
		}
		// schemes that software commonly treats specially, in shapes that are valid URIs but not what
		// the scheme's own syntax would call complete
		for extra in [
			"data:text/plain", "data:,", "data:;base64,QQ==", "DATA:x?a,b#c", "dat:text/plain", "data:a/./b", "http://h/", "http:", "https://h:443/p?q#f", "http+unix://h/p", "mailto:a@b", "urn:a:b", "file:///a", "file:a",
			"about:blank", "javascript:void(0)", "ws://h", "tag:a,2000:b", "blob:http://h/x",
		] {
			texts.insert(extra.to_string());
		}
		// special scalars (white space that trim() strips, BOM, bidi / zero-width controls, case-mapping
		// oddities, block boundaries) in first, inner and last position
		for x in domains::special_scalars() {
			for tpl in ["X", "s:X", "Xa", "s:aX", "s:aXa", "//X", "s://h/p?X", "s:#X"] {
				texts.insert(tpl.replace('X', &x.to_string()));
			}
		}
		// every printable ASCII character on its own (valid or not) in a path, a query and a host
		for c in 0x20u8..0x7F {
			let c = c as char;
			texts.insert(format!("s:{c}"));
			texts.insert(format!("s://h/p?{c}"));
			texts.insert(format!("//a{c}/"));
		}
		// ports: empty, leading zeros, on both sides of u16, very long
		for p in ["", "0", "9", "080", "65535", "65536", "99999", "100000", "12345678901234567890"] {
			texts.insert(format!("s://h:{p}/"));
			texts.insert(format!("//[::1]:{p}#f"));
		}
		// literals around 64 / 128 / 256 / 1024 / 2048 bytes, with a multi-byte character straddling every offset
		for l in (58usize..=70).chain(124..=130).chain(252..=258).chain(1018..=1026).chain(2042..=2050) {
			texts.insert(format!("s:{}", "a".repeat(l)));
			texts.insert(format!("s:{}é{}", "a".repeat(l), "b"));
			texts.insert(format!("s:{}{}", "a".repeat(l), '\u{10000}'));
		}
		// literals whose length does not fit 16 bits (the URI macros expand to one token per byte)
		for l in [65_535usize, 65_536] {
			texts.insert(format!("s:{}", "a".repeat(l - 2)));
		}
		// every literal with an upper-case hex digit in a %XX triplet also in lower case (and one
		// mixed-case variant): the constant must keep the spelling
		let mut variants: Vec<String> = Vec::new();
		for t in &texts {
			if let Some(l) = lower_hex(t) {
				variants.push(l);
			}
		}
		for extra in ["s:%7e", "s:/%c3%a9?%aa#%fF", "//%e2%82%ac@%c3%a9/%7euser"] {
			variants.push(extra.to_string());
		}
		texts.extend(variants);
		for (i, t) in texts.iter().enumerate() {
			let expect = refs.valid(f, k, t.as_bytes());
			out.push(Case { mac, text: t.clone(), spelling: Spelling::Escaped, expect });
			// the two raw spellings for every third literal (and all "extra" ones are short enough)
			if i % 3 == 0 || t.len() < 6 {
				for sp in [Spelling::Raw, Spelling::RawHashes] {
					if spell(t, sp).is_some() {
						out.push(Case { mac, text: t.clone(), spelling: sp, expect });
					}
				}
			}
			// escape-only spellings (the literal TOKEN differs, the value does not)
			if i % 4 == 1 || t.len() < 6 {
				for sp in [Spelling::UnicodeEsc, Spelling::HexEsc, Spelling::Continuation] {
					if spell(t, sp).is_some() {
						out.push(Case { mac, text: t.clone(), spelling: sp, expect });
					}
				}
			}
			// the same invocation reached through a declarative macro that forwards the literal
			if i % 40 == 2 || t.len() < 5 {
				for sp in [Spelling::FwdLiteral, Spelling::FwdExpr] {
					out.push(Case { mac, text: t.clone(), spelling: sp, expect });
				}
			}
		}
	}
	out
}

fn project_dir(ctx: &Ctx) -> PathBuf {
	let target = std::env::var("CARGO_TARGET_DIR").map(PathBuf::from).unwrap_or_else(|_| ctx.root.join("target"));
	target.join("c17-project")
}

fn target_dir(ctx: &Ctx) -> PathBuf {
	std::env::var("CARGO_TARGET_DIR").map(PathBuf::from).unwrap_or_else(|_| ctx.root.join("target"))
}

fn write_project(ctx: &Ctx, dir: &Path) -> Result<(), String> {
	std::fs::create_dir_all(dir.join("src/bin")).map_err(|e| e.to_string())?;
	let repo = std::env::var("VERIF_REPO").unwrap_or_else(|_| "/repo".to_string());
	let toml = format!(
		"[package]\nname = \"c17-programs\"\nversion = \"0.0.0\"\nedition = \"2021\"\npublish = false\n\n[workspace]\n\n[dependencies]\niref = {{ path = \"{repo}\", features = [\"macros\"] }}\n\n[profile.dev]\ndebug = 0\nincremental = false\n\n[profile.dev.build-override]\nopt-level = 3\n"
	);
	std::fs::write(dir.join("Cargo.toml"), toml).map_err(|e| e.to_string())?;
	std::fs::create_dir_all(dir.join(".cargo")).map_err(|e| e.to_string())?;
	std::fs::write(dir.join(".cargo/config.toml"), "[net]\noffline = true\n").map_err(|e| e.to_string())?;
	let lock = ctx.root.join("harness/Cargo.lock");
	if lock.exists() && !dir.join("Cargo.lock").exists() {
		std::fs::copy(&lock, dir.join("Cargo.lock")).map_err(|e| e.to_string())?;
	}
	Ok(())
}

fn cargo(ctx: &Ctx, dir: &Path, args: &[&str]) -> Result<std::process::Output, String> {
	Command::new("cargo")
		.args(args)
		.current_dir(dir)
		.env("CARGO_TARGET_DIR", target_dir(ctx))
		.env("CARGO_NET_OFFLINE", "true")
		.env("CARGO_TERM_COLOR", "never")
		.env_remove("RUSTFLAGS")
		.output()
		.map_err(|e| format!("cannot run cargo: {e}"))
}

fn case_input(c: &Case) -> Value {
	json!({"macro": c.mac.name(), "literal": bytes_json(c.text.as_bytes()), "spelling": format!("{:?}", c.spelling)})
}

fn mkv(c: &Case, what: &str) -> Violation {
	Violation::new("C17", "macro", what, case_input(c)).feat("macro", c.mac.name()).feat("spelling", format!("{:?}", c.spelling)).feat("reference_accepts", c.expect)
}

/// Compile program 1 (all invocations) and return the set of 1-based lines carrying an error.
fn acceptance_set(ctx: &Ctx, dir: &Path, cs: &[Case]) -> Result<BTreeSet<usize>, String> {
	let mut src = String::from("#![allow(dead_code)]\n");
	src.push_str(FWD_MACROS);
	// invocation i is on line i + 4
	// (a literal spelled with a continuation spans two source lines: real line -> invocation)
	let mut line_to_case: std::collections::BTreeMap<usize, usize> = std::collections::BTreeMap::new();
	let mut cur_line = 2usize + FWD_MACROS.matches('\n').count();
	for (i, c) in cs.iter().enumerate() {
		let item = format!("const C{i}: &iref::{} = {};\n", c.mac.ty(), invocation(c));
		let n = item.matches('\n').count();
		for k in 0..n {
			line_to_case.insert(cur_line + k, i);
		}
		cur_line += n;
		src.push_str(&item);
	}
	src.push_str("fn main() {}\n");
	std::fs::write(dir.join("src/bin/prog1.rs"), &src).map_err(|e| e.to_string())?;
	let _ = std::fs::remove_file(dir.join("src/bin/prog2.rs"));
	let out = cargo(ctx, dir, &["check", "--offline", "--quiet", "--bin", "prog1", "--message-format=json"])?;
	let stdout = String::from_utf8_lossy(&out.stdout);
	let mut lines = BTreeSet::new();
	let mut other_errors: Vec<String> = Vec::new();
	let mut saw_compiler_message = false;
	for l in stdout.lines() {
		let v: Value = match serde_json::from_str(l) {
			Ok(v) => v,
			Err(_) => continue,
		};
		if v["reason"] != "compiler-message" {
			continue;
		}
		saw_compiler_message = true;
		let m = &v["message"];
		if m["level"] != "error" {
			continue;
		}
		let mut located = false;
		for sp in m["spans"].as_array().cloned().unwrap_or_default() {
			// the span itself, then the call sites of the macro expansions it comes from
			let mut cur = sp;
			for _ in 0..8 {
				if cur["file_name"].as_str().map(|f| f.ends_with("prog1.rs")).unwrap_or(false) {
					if let Some(ln) = cur["line_start"].as_u64() {
						if let Some(i) = line_to_case.get(&(ln as usize)) {
							lines.insert(i + 2);
							located = true;
						}
					}
				}
				let next = cur["expansion"]["span"].clone();
				if next.is_null() {
					break;
				}
				cur = next;
			}
		}
		if !located {
			let msg = m["message"].as_str().unwrap_or("").to_string();
			if !msg.starts_with("aborting due to") && !msg.starts_with("could not compile") {
				other_errors.push(msg);
			}
		}
	}
	if !out.status.success() && lines.is_empty() {
		return Err(format!("program 1 failed to build without located errors: {} {}", other_errors.join("; "), String::from_utf8_lossy(&out.stderr).lines().rev().take(5).collect::<Vec<_>>().join(" | ")));
	}
	if !other_errors.is_empty() {
		return Err(format!("program 1: errors outside the invocation lines: {}", other_errors.join("; ")));
	}
	let _ = saw_compiler_message;
	Ok(lines)
}

/// Build and run program 2 (accepted invocations + comparison with the run-time parse).
/// Returns mismatch lines "index<TAB>what".
fn run_program2(ctx: &Ctx, dir: &Path, cs: &[Case], accepted: &[usize]) -> Result<Vec<(usize, String)>, String> {
	let mut src = String::from("#![allow(dead_code)]\n");
	src.push_str(
		r#"
macro_rules! checker {
	($f:ident, $T:ident, $new:expr) => {
		fn $f(i: usize, c: &'static iref::$T, s: &str) {
			let parsed = match $new(s) {
				Ok(p) => p,
				Err(_) => {
					println!("MISMATCH\t{i}\trun-time parser rejects the accepted literal");
					return;
				}
			};
			if c.as_bytes() != s.as_bytes() {
				println!("MISMATCH\t{i}\ttext {:?}", String::from_utf8_lossy(c.as_bytes()));
			}
			let b = |x: Option<&[u8]>| x.map(|v| v.to_vec());
			let cc = (b(c.scheme_bytes()), b(c.authority().map(|a| a.as_bytes())), c.path().as_bytes().to_vec(), b(c.query().map(|a| a.as_bytes())), b(c.fragment().map(|a| a.as_bytes())));
			let pp = (b(parsed.scheme_bytes()), b(parsed.authority().map(|a| a.as_bytes())), parsed.path().as_bytes().to_vec(), b(parsed.query().map(|a| a.as_bytes())), b(parsed.fragment().map(|a| a.as_bytes())));
			if cc != pp {
				println!("MISMATCH\t{i}\tcomponents {:?} vs {:?}", cc, pp);
			}
			let eq = std::panic::catch_unwind(|| *c == *parsed);
			if eq.ok() != Some(true) {
				println!("MISMATCH\t{i}\tthe constant is not == to the run-time parse");
			}
		}
	};
}
trait SchemeBytes { fn scheme_bytes(&self) -> Option<&[u8]>; }
impl SchemeBytes for iref::Uri { fn scheme_bytes(&self) -> Option<&[u8]> { Some(self.scheme().as_bytes()) } }
impl SchemeBytes for iref::Iri { fn scheme_bytes(&self) -> Option<&[u8]> { Some(self.scheme().as_bytes()) } }
impl SchemeBytes for iref::UriRef { fn scheme_bytes(&self) -> Option<&[u8]> { self.scheme().map(|s| s.as_bytes()) } }
impl SchemeBytes for iref::IriRef { fn scheme_bytes(&self) -> Option<&[u8]> { self.scheme().map(|s| s.as_bytes()) } }
checker!(check_uri, Uri, |s: &str| iref::Uri::new(s.as_bytes()).map_err(|_| ()).map(|x| x.to_owned()));
checker!(check_uri_ref, UriRef, |s: &str| iref::UriRef::new(s.as_bytes()).map_err(|_| ()).map(|x| x.to_owned()));
checker!(check_iri, Iri, |s: &str| iref::Iri::new(s).map_err(|_| ()).map(|x| x.to_owned()));
checker!(check_iri_ref, IriRef, |s: &str| iref::IriRef::new(s).map_err(|_| ()).map(|x| x.to_owned()));
"#,
	);
	src.push_str(FWD_MACROS);
	for i in accepted {
		let c = &cs[*i];
		src.push_str(&format!("const C{i}: &iref::{} = {};\n", c.mac.ty(), invocation(c)));
	}
	src.push_str("fn main() {\n\tstd::panic::set_hook(Box::new(|_| {}));\n");
	for i in accepted {
		let c = &cs[*i];
		let esc = spell(&c.text, Spelling::Escaped).unwrap();
		src.push_str(&format!("\tcheck_{}({i}, C{i}, {esc});\n", c.mac.name()));
	}
	src.push_str("\tprintln!(\"DONE\\t{}\");\n}\n".replace("{}", &accepted.len().to_string()).as_str());
	std::fs::write(dir.join("src/bin/prog2.rs"), &src).map_err(|e| e.to_string())?;
	let out = cargo(ctx, dir, &["run", "--offline", "--quiet", "--bin", "prog2"])?;
	let stdout = String::from_utf8_lossy(&out.stdout).to_string();
	if !out.status.success() || !stdout.contains(&format!("DONE\t{}", accepted.len())) {
		let err = String::from_utf8_lossy(&out.stderr);
		return Err(format!("PROGRAM2-FAILED: {}", err.lines().filter(|l| l.contains("error") || l.contains("-->")).take(12).collect::<Vec<_>>().join(" | ")));
	}
	let mut mism = Vec::new();
	for l in stdout.lines() {
		let mut it = l.splitn(3, '\t');
		if it.next() == Some("MISMATCH") {
			if let (Some(i), Some(w)) = (it.next().and_then(|x| x.parse::<usize>().ok()), it.next()) {
				mism.push((i, w.to_string()));
			}
		}
	}
	Ok(mism)
}

fn judge(ctx: &Ctx, cs: &[Case], report: &mut Report) {
	let dir = project_dir(ctx);
	if let Err(e) = write_project(ctx, &dir) {
		panic!("cannot write the C17 project: {e}");
	}
	let errs = match acceptance_set(ctx, &dir, cs) {
		Ok(e) => e,
		Err(e) => panic!("C17 machinery: {e}"),
	};
	let mut accepted = Vec::new();
	for (i, c) in cs.iter().enumerate() {
		let rejected = errs.contains(&(i + 2));
		report.evaluations += 1;
		// run-time verdict of the corresponding parser
		let (f, k) = c.mac.fam_kind();
		let rt = match f {
			Family::Uri => crate::fam::uri::valid(k, c.text.as_bytes()),
			Family::Iri => crate::fam::iri::valid(k, c.text.as_bytes()),
		};
		if rejected == rt {
			report.violate(
				mkv(c, if rt { "rejected-valid-literal" } else { "accepted-invalid-literal" })
					.obs(if rejected { "compile error" } else { "compiles" })
					.exp(format!("run-time parser {} the same string", if rt { "accepts" } else { "rejects" })),
			);
		}
		if rt != c.expect {
			report.violate(mkv(c, "run-time-vs-reference").obs(format!("run-time parser: {rt}")).exp(format!("reference grammar: {}", c.expect)));
		}
		if !rejected {
			accepted.push(i);
		}
		report.count(if rejected { "rejected_at_compile_time" } else { "accepted_at_compile_time" }, 1);
	}
	report.info.insert("program1_invocations".into(), json!(cs.len()));
	match run_program2(ctx, &dir, cs, &accepted) {
		Ok(mism) => {
			for (i, w) in mism {
				report.violate(mkv(&cs[i], "constant-differs").obs(w).exp("text, components and == identical to the run-time parse"));
			}
			report.info.insert("program2_constants_compared".into(), json!(accepted.len()));
		}
		Err(e) if e.starts_with("PROGRAM2-FAILED") => {
			// the expansion of an accepted literal does not compile / the program aborts
			let c = &cs[accepted.first().copied().unwrap_or(0)];
			report.violate(Violation::new("C17", "macro", "program2-does-not-build-or-run", json!({"note": "all accepted invocations", "first": case_input(c)})).obs(e).exp("the expansions of accepted literals compile and run"));
		}
		Err(e) => panic!("C17 machinery: {e}"),
	}
	report.states = cs.len() as u64;
	report.transitions = report.evaluations;
	report.traces = cs.len() as u64;
	report.distinct_nontrivial = cs.len() as u64;
	report.info.insert("programs".into(), json!(cs.len()));
}

pub fn run(ctx: &Ctx) -> Report {
	let refs = Refs::new(&ctx.root);
	let mut r = Report::new();
	r.rule = "programs = one macro invocation (uri!, uri_ref!, iri!, iri_ref!) on one string literal; literals = transition cover S ∪ S·K of the reference DFA of the macro's type (every state, every transition over the class alphabet), continued by characterisation suffixes, plus literals needing escapes ({ } # \" \\ control characters, non-ASCII, bidi controls); each in up to six Rust spellings (minimal escapes, raw, raw with hashes, every character as \\u{..}, ASCII as \\xNN, backslash-newline continuation); all compiled by the real rustc with the real proc-macro: acceptance set from one `cargo check`, accepted constants compared with the run-time parse in a second, executed program; non-trivial = distinct (macro, literal, spelling)".into();
	let warm = std::env::var("VERIF_C17_WARM").is_ok();
	let cs = cases(refs, ctx.quick(), warm);
	for c in cs.iter().step_by((cs.len() / 8).max(1)) {
		r.sample(case_input(c));
	}
	judge(ctx, &cs, &mut r);
	if !r.buckets.is_empty() {
		attach_histories(ctx, &cs, &mut r);
	}
	r.assumptions.push("non-string-literal macro arguments are outside the quantifier".into());
	r.assumptions.push("rustc/cargo are trusted to report every compile_error! with the span of its invocation".into());
	r
}

fn parse_case(refs: &Refs, input: &Value) -> Option<Case> {
	let (mac, text) = match (input["macro"].as_str().and_then(Mac::parse), crate::engine::json_bytes(&input["literal"]).and_then(|b| String::from_utf8(b).ok())) {
		(Some(m), Some(t)) => (m, t),
		_ => return None,
	};
	let spelling = match input["spelling"].as_str() {
		Some("Raw") => Spelling::Raw,
		Some("RawHashes") => Spelling::RawHashes,
		Some("UnicodeEsc") => Spelling::UnicodeEsc,
		Some("HexEsc") => Spelling::HexEsc,
		Some("Continuation") => Spelling::Continuation,
		Some("FwdLiteral") => Spelling::FwdLiteral,
		Some("FwdExpr") => Spelling::FwdExpr,
		_ => Spelling::Escaped,
	};
	let (f, k) = mac.fam_kind();
	let expect = refs.valid(f, k, text.as_bytes());
	Some(Case { mac, text, spelling, expect })
}

/// Replays one invocation: alone in its program, or - when the input names them - after the
/// invocations listed under "preceded_by" in the same program (a verdict that depends on what
/// the compiler expanded before).
pub fn replay(ctx: &Ctx, _check: &str, input: &Value) -> Vec<Violation> {
	let refs = Refs::new(&ctx.root);
	let mut cs: Vec<Case> = Vec::new();
	for p in input["preceded_by"].as_array().cloned().unwrap_or_default() {
		match parse_case(&refs, &p) {
			Some(c) => cs.push(c),
			None => return vec![],
		}
	}
	match parse_case(&refs, input) {
		Some(c) => cs.push(c),
		None => return vec![],
	}
	let mut r = Report::new();
	judge(ctx, &cs, &mut r);
	let last = case_input(cs.last().unwrap());
	r.buckets.into_values().flat_map(|b| b.examples).filter(|v| v.input == last).collect()
}

fn same_value(mac: Mac, a: &str, b: &str) -> bool {
	let r = std::panic::catch_unwind(|| match mac {
		Mac::Uri => matches!((iref::Uri::new(a.as_bytes()), iref::Uri::new(b.as_bytes())), (Ok(x), Ok(y)) if x == y),
		Mac::UriRef => matches!((iref::UriRef::new(a.as_bytes()), iref::UriRef::new(b.as_bytes())), (Ok(x), Ok(y)) if x == y),
		Mac::Iri => matches!((iref::Iri::new(a), iref::Iri::new(b)), (Ok(x), Ok(y)) if x == y),
		Mac::IriRef => matches!((iref::IriRef::new(a), iref::IriRef::new(b)), (Ok(x), Ok(y)) if x == y),
	});
	r.unwrap_or(false)
}

/// A verdict observed in the batch program that the invocation does not show alone in its own
/// program depends on the invocations expanded before it. Find a short history that reproduces it
/// (earlier invocations of the same macro on an equivalent value; failing that, everything before)
/// and record it in the replay input.
fn attach_histories(ctx: &Ctx, cs: &[Case], report: &mut Report) {
	let refs = Refs::new(&ctx.root);
	let keys: Vec<String> = report.buckets.keys().cloned().collect();
	for key in keys {
		let ex = report.buckets[&key].examples[0].clone();
		if ex.check != "macro" {
			continue;
		}
		let Some(case) = parse_case(&refs, &ex.input) else { continue };
		let want = format!("{}|{}", ex.signature(), ex.observed);
		let reproduces = |input: &Value| replay(ctx, "macro", input).iter().any(|v| format!("{}|{}", v.signature(), v.observed) == want);
		if reproduces(&ex.input) {
			continue;
		}
		let Some(pos) = cs.iter().position(|c| c.mac == case.mac && c.text == case.text && c.spelling == case.spelling) else { continue };
		let related: Vec<Value> = cs[..pos].iter().filter(|c| c.mac == case.mac && c.text != case.text && same_value(c.mac, &c.text, &case.text)).map(case_input).collect();
		let mut chosen: Option<Vec<Value>> = None;
		for r in &related {
			let mut i = ex.input.clone();
			i["preceded_by"] = json!([r]);
			if reproduces(&i) {
				chosen = Some(vec![r.clone()]);
				break;
			}
		}
		if chosen.is_none() && related.len() > 1 {
			let mut i = ex.input.clone();
			i["preceded_by"] = json!(related);
			if reproduces(&i) {
				chosen = Some(related.clone());
			}
		}
		if chosen.is_none() {
			chosen = Some(cs[..pos].iter().map(case_input).collect());
		}
		let b = report.buckets.get_mut(&key).unwrap();
		b.examples[0].input["preceded_by"] = json!(chosen.unwrap());
		report.count("verdicts_depending_on_earlier_invocations", 1);
	}
}
