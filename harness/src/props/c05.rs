//! C05 driver: (buffer, setter value) sweep.

use crate::engine::{run_shards, Ctx, Report, Violation};
use crate::fam::{Family, Kind};
use crate::model::{domains, syntax, FamRefs, Refs};
use crate::by_family;
use serde_json::{json, Value};

pub fn auth_small(f: Family, level: u8) -> Vec<Option<Vec<u8>>> {
	// "h" / "%68": two spellings of one authority under ==
	// "h:": an authority that ENDS with ':' (empty port)
	let mut v: Vec<Option<&str>> = vec![None, Some(""), Some("h"), Some("%68"), Some("u@h:1"), Some("[::1]"), Some("h:"), Some("%7eu@caf%c3%a9")];
	if level >= 1 {
		v.extend([Some("u:p@[v1.a:b]:065535"), Some("a.b:"), Some("@")]);
	}
	if f == Family::Iri {
		v.push(Some("é"));
	}
	v.into_iter().map(|o| o.map(domains::b)).collect()
}

pub fn long(c: u8, n: usize) -> Vec<u8> {
	std::iter::repeat(c).take(n).collect()
}

pub fn tails_q(f: Family, level: u8) -> Vec<Option<Vec<u8>>> {
	let mut v = domains::query_options(f, 1);
	v.push(Some(domains::b("/?:@")));
	v.push(Some(domains::b("//x")));
	v.push(Some(long(b'q', 40)));
	if level >= 1 {
		v.push(Some(long(b'Q', 600)));
	}
	v
}

pub fn tails_f(f: Family, level: u8) -> Vec<Option<Vec<u8>>> {
	let mut v = domains::fragment_options(f, 1);
	v.push(Some(domains::b("?/:@[")));
	v.push(Some(domains::b("//x")));
	if level >= 1 {
		v.push(Some(long(b'f', 40)));
		v.push(Some(long(b'F', 600)));
	}
	v
}

pub fn path_values(f: Family) -> Vec<Vec<u8>> {
	let mut v: Vec<&str> = vec!["", "/", "a", "%61", "/a", "/%61", "/a/.", "//a", "a:b", "./a:b", "a/../b:c", "/.//a", "1:b", ":", "a/b/c/d/e/f/g", "//", "/a:b", "/a:b/c", "/:", "..a:b/c", "/%7euser/%c3%a9", "a%3Ab", "%3a", "a%3Ab/c:d"];
	if f == Family::Iri {
		v.push("é/é:é");
		v.push("é:b");
	}
	v.into_iter().map(domains::b).collect()
}

/// Buffer paths beyond PATH(2): shapes the library itself writes ("/.//a" after removing an
/// authority in front of "//a") and their near misses.
pub fn extra_buffer_paths() -> Vec<Vec<u8>> {
	["/.//a", "/.//", "/./a", "/..//a", ".//a", "./a:b", "/.//a:b", "..a:b/c", "..:x", "...:", ".a:b", "../a:b", "/a:b/c", "a://b/c", "a://", "b:c://d", "a:/b"].iter().map(|s| domains::b(s)).collect()
}

macro_rules! setter_values {
	($m:ident, $f:expr, $level:expr) => {{
		use crate::fam::$m::SOp;
		let mut ops: Vec<SOp> = Vec::new();
		for s in [None, Some("t"), Some("s"), Some("S"), Some("longer-scheme+1.0")] {
			ops.push(SOp::Scheme(s.map(domains::b)));
		}
		for a in auth_small($f, $level) {
			ops.push(SOp::Authority(a));
		}
		for p in path_values($f) {
			ops.push(SOp::Path(p));
		}
		// "%c3%a9", "%7e": escapes in lower-case hex - a setter writes its argument as given
		for q in [None, Some(""), Some("y"), Some("q"), Some("%71"), Some("%c3%a9=%7e"), Some("a:b/c?d=@"), Some("0123456789012345678901234567890123456789012345")] {
			ops.push(SOp::Query(q.map(domains::b)));
		}
		for fr in [None, Some(""), Some("g"), Some("f"), Some("%66"), Some("%c3%a9%7e"), Some("a:/?b@"), Some("0123456789012345678901234567890123456789012345")] {
			ops.push(SOp::Fragment(fr.map(domains::b)));
		}
		ops
	}};
}

macro_rules! sweep {
	($m:ident, $f:expr, $ctx:expr, $dom:expr, $level:expr) => {{
		use crate::fam::$m::{c05_case, c05_input};
		let ops = setter_values!($m, $f, $level);
		let shards = 64usize;
		let dom = $dom;
		let mut r = run_shards($ctx, shards, |si| {
			let mut r = Report::new();
			let mut vs = Vec::new();
			for (i, (t, _)) in dom.iter().enumerate() {
				if i % shards != si {
					continue;
				}
				r.states += 1;
				for op in &ops {
					let n = c05_case(t, op, &mut vs);
					r.evaluations += n;
					r.transitions += n;
					r.distinct_nontrivial += n;
					if r.transitions % 90001 == 1 {
						r.sample(c05_input(t, op, "RiRefBuf"));
					}
				}
				for v in vs.drain(..) {
					r.violate(v);
				}
			}
			r.traces = r.transitions;
			r
		});
		r.count(&format!("{}_setter_values", $f.name()), ops.len() as u64);
		r
	}};
}

macro_rules! length_values {
	($m:ident, $fr:expr, $dom:expr) => {{
		use crate::fam::$m::{c05_case, SOp};
		let rep = |c: char, n: usize| -> Vec<u8> { std::iter::repeat(c as u8).take(n).collect() };
		let mut ops: Vec<SOp> = Vec::new();
		for n in 0..=4usize {
			ops.push(SOp::Query(Some(rep('y', n))));
			ops.push(SOp::Fragment(Some(rep('g', n))));
			ops.push(SOp::Authority(Some(rep('a', n))));
			ops.push(SOp::Path(rep('r', n)));
			let mut abs = rep('r', n);
			abs.insert(0, b'/');
			ops.push(SOp::Path(abs));
			if n >= 1 {
				ops.push(SOp::Scheme(Some(rep('t', n))));
			}
		}
		ops.push(SOp::Query(None));
		ops.push(SOp::Fragment(None));
		ops.push(SOp::Authority(None));
		let mut r = Report::new();
		let mut vs = Vec::new();
		for (t, _) in $dom.iter() {
			r.states += 1;
			for op in &ops {
				let n = c05_case(t, op, &mut vs);
				r.evaluations += n;
				r.transitions += n;
				r.distinct_nontrivial += n;
			}
			for v in vs.drain(..) {
				r.violate(v);
			}
		}
		r.traces = r.transitions;
		let _ = $fr;
		r
	}};
}

macro_rules! ascii_values {
	($m:ident, $f:expr, $fr:expr, $dom:expr) => {{
		use crate::fam::$m::{c05_case, SOp};
		let mut ops: Vec<SOp> = Vec::new();
		for v in domains::ascii_sweep(&["X", "aX", "Xa", "X/a", "a/X", "/X", "X:a", "aX:b"]) {
			if $fr.valid(Kind::Path, &v) {
				ops.push(SOp::Path(v));
			}
		}
		for v in domains::ascii_sweep(&["X", "aXb"]) {
			if $fr.valid(Kind::Query, &v) {
				ops.push(SOp::Query(Some(v.clone())));
			}
			if $fr.valid(Kind::Fragment, &v) {
				ops.push(SOp::Fragment(Some(v.clone())));
			}
			if $fr.valid(Kind::Authority, &v) {
				ops.push(SOp::Authority(Some(v.clone())));
			}
		}
		for v in domains::ascii_sweep(&["sX", "sXa"]) {
			if $fr.valid(Kind::Scheme, &v) {
				ops.push(SOp::Scheme(Some(v)));
			}
		}
		let mut r = Report::new();
		let mut vs = Vec::new();
		for (t, _) in $dom.iter() {
			r.states += 1;
			for op in &ops {
				let n = c05_case(t, op, &mut vs);
				r.evaluations += n;
				r.transitions += n;
				r.distinct_nontrivial += n;
			}
			for v in vs.drain(..) {
				r.violate(v);
			}
		}
		r.traces = r.transitions;
		let _ = $f;
		r
	}};
}

pub fn run(ctx: &Ctx) -> Report {
	let refs = Refs::new(&ctx.root);
	let mut total = Report::new();
	total.rule = "buffers: compositions scheme x authority x (PATH(2) + shielded shapes such as /.//a) x query x fragment (queries/fragments containing delimiters, tails of 0/1/40/600 bytes) valid per the reference DFA and re-splitting to the chosen components; x every value of every setter incl. removal (longer, equal, shorter, values needing disambiguation), on RiRefBuf and (when the buffer has a scheme) RiBuf; non-trivial = distinct (buffer, setter value, buffer type)".into();
	let level = ctx.pick(0u8, 1u8);
	for f in Family::active() {
		let fr = FamRefs::new(refs, f);
		let mut paths = domains::paths(&domains::seg_alphabet(f, 0), 2);
		// first segments that contain ':' without looking like a scheme (valid only after a scheme)
		for extra in ["1:b", ":", "1:b/c", ":/", "/1:b"] {
			paths.push(domains::b(extra));
		}
		paths.extend(extra_buffer_paths());
		paths.sort();
		paths.dedup();
		let dom: Vec<(Vec<u8>, syntax::Parts)> = domains::references(&domains::scheme_options(1), &auth_small(f, level), &paths, &tails_q(f, level), &tails_f(f, level))
			.into_iter()
			.filter(|(t, _)| fr.valid(Kind::RiRef, t))
			.collect();
		total.count(&format!("{}_buffers", f.name()), dom.len() as u64);
		let r = match f {
			Family::Uri => sweep!(uri, f, ctx, &dom, level),
			Family::Iri => sweep!(iri, f, ctx, &dom, level),
		};
		total.merge(r);
		// every relation between the lengths of the old value, the new value and what follows it: each
		// component with 0..4 bytes, each setter value with 0..4 bytes
		{
			let rep = |c: char, n: usize| -> Vec<u8> { std::iter::repeat(c as u8).take(n).collect() };
			let mut bufs: Vec<(Vec<u8>, syntax::Parts)> = Vec::new();
			for pl in 0..=3usize {
				for ql in 0..=4usize {
					for fl in 0..=4usize {
						for auth in [None, Some(domains::b("h"))] {
							let mut path = rep('p', pl);
							if auth.is_some() && pl > 0 {
								path[0] = b'/';
							}
							let parts = syntax::Parts { scheme: Some(domains::b("s")), authority: auth.clone(), path, query: if ql == 0 { None } else { Some(rep('q', ql - 1)) }, fragment: if fl == 0 { None } else { Some(rep('f', fl - 1)) } };
							let t = syntax::recompose(&parts);
							if fr.valid(Kind::RiRef, &t) && syntax::split(&t) == parts {
								bufs.push((t, parts));
							}
						}
					}
				}
			}
			let r = match f {
				Family::Uri => length_values!(uri, &fr, &bufs),
				Family::Iri => length_values!(iri, &fr, &bufs),
			};
			total.count(&format!("{}_length_relation_cases", f.name()), r.transitions);
			total.merge(r);
		}
		// every printable ASCII character, one at a time, as (part of) a setter value, on a few buffers
		{
			let small: Vec<(Vec<u8>, syntax::Parts)> = ["", "s:", "//h", "s://u@h:1/p?q#f", "a/b", "/a", "s:a:b", "?q", "#f"]
				.iter()
				.map(|t| (domains::b(t), syntax::split(t.as_bytes())))
				.filter(|(t, _)| fr.valid(Kind::RiRef, t))
				.collect();
			let r = match f {
				Family::Uri => ascii_values!(uri, f, &fr, &small),
				Family::Iri => ascii_values!(iri, f, &fr, &small),
			};
			total.count(&format!("{}_ascii_sweep_cases", f.name()), r.transitions);
			total.merge(r);
		}
		if ctx.out_of_time() {
			total.cap(format!("wall clock reached after {}", f.name()));
			return total;
		}
	}
	total.info.insert("bounds".into(), json!({"alphabet_level": level, "path_segments_max": 2}));
	total
}

pub fn replay(_ctx: &Ctx, _check: &str, input: &Value) -> Vec<Violation> {
	match super::input_family(input) {
		Some(f) => by_family!(f, c05_replay(input)),
		None => vec![],
	}
}
