//! C04 driver: level-synchronous BFS over every safe mutator of every owned buffer type.

use crate::by_family;
use crate::engine::{run_shards, Ctx, Report, Violation};
use crate::fam::{Family, Kind};
use crate::model::pathops::Op;
use crate::model::{domains, syntax, FamRefs, Refs};
use serde_json::{json, Value};
use std::collections::HashSet;

const MAX_LEN: usize = 40;

macro_rules! explore {
	($m:ident, $f:expr, $ctx:expr, $refs:expr, $depth:expr, $level:expr, $seed_only:expr) => {{
		use crate::fam::$m::{c04_applicable, c04_input, c04_step, AOp, BufTy, MOp, SOp};
		let f: Family = $f;
		let fr = FamRefs::new($refs, f);
		// ---- operation alphabet
		let mut ops: Vec<MOp> = Vec::new();
		for s in [None, Some("t"), Some("ab+1.-")] {
			ops.push(MOp::Set(SOp::Scheme(s.map(domains::b))));
		}
		let mut auths: Vec<Option<&str>> = vec![None, Some(""), Some("h"), Some("u@h:1"), Some("[::1]"), Some("h:"), Some("u@[v1.x:y]")];
		let mut pvals: Vec<&str> = vec!["", "/", "a", "/a", "//a", "a:b", "./a:b", "a/../b:c", "/.//a", "1:b", ":"];
		let mut segs: Vec<&str> = vec!["", ".", "..", "a", "a:b", ":"];
		if f == Family::Iri {
			auths.push(Some("é"));
			pvals.push("é");
			// a ':' in the first segment after a non-ASCII character
			pvals.push("é:b");
			segs.push("é");
			segs.push("é:b");
		}
		// an empty segment behind a '.' shield with a ':' segment after it
		pvals.push("/.//a:b");
		if $level >= 1 {
			segs.extend(["%2E", "1:b"]);
			pvals.extend(["//", "..", "a//b"]);
		}
		for a in &auths {
			ops.push(MOp::Set(SOp::Authority(a.map(domains::b))));
		}
		for p in &pvals {
			ops.push(MOp::Set(SOp::Path(domains::b(p))));
		}
		for q in [None, Some(""), Some("q"), Some("a:b/c?d@")] {
			ops.push(MOp::Set(SOp::Query(q.map(domains::b))));
		}
		if $f == Family::Iri {
			// a character that only a query may hold (iprivate): wherever else it lands, the buffer is invalid
			ops.push(MOp::Set(SOp::Query(Some(domains::b("\u{E000}")))));
		}
		for fr_ in [None, Some(""), Some("f"), Some("a:/?b@")] {
			ops.push(MOp::Set(SOp::Fragment(fr_.map(domains::b))));
		}
		for s in &segs {
			ops.push(MOp::Path(Op::Push(domains::b(s))));
			ops.push(MOp::Path(Op::SymPush(domains::b(s))));
		}
		ops.push(MOp::Path(Op::Pop));
		ops.push(MOp::Path(Op::Clear));
		ops.push(MOp::Path(Op::Normalize));
		let ap: Vec<Vec<u8>> = ["", ".", "..", "a"].iter().map(|s| domains::b(s)).collect();
		for p in domains::paths(&ap, 2) {
			if !p.is_empty() {
				ops.push(MOp::Path(Op::SymAppend(p)));
			}
		}
		ops.push(MOp::Path(Op::SymAppend(domains::b("a:b/.."))));
		for u in [None, Some(""), Some("u:p")] {
			ops.push(MOp::Auth(AOp::SetUserinfo(u.map(domains::b))));
		}
		for h in ["", "hh", "[::1]"] {
			ops.push(MOp::Auth(AOp::SetHost(domains::b(h))));
		}
		for p in [None, Some(""), Some("80")] {
			ops.push(MOp::Auth(AOp::SetPort(p.map(domains::b))));
		}
		for base in ["s:", "s:/", "s:a/b", "s://h", "s://h/a/b?q", "s:/a/b/../c#f", "s:a:b/c"] {
			ops.push(MOp::Resolve(domains::b(base)));
		}
		// ---- initial states
		let mut total = Report::new();
		total.count(&format!("{}_operations", f.name()), if $seed_only { 0 } else { ops.len() as u64 });
		let paths = domains::paths(&domains::seg_alphabet(f, 0), 2);
		let auth_opts: Vec<Option<Vec<u8>>> = auths.iter().map(|a| a.map(domains::b)).collect();
		let refdom: Vec<Vec<u8>> = domains::references(
			&domains::scheme_options(0),
			&auth_opts,
			&paths,
			&[None, Some(domains::b("q"))],
			&[None, Some(domains::b("f"))],
		)
		.into_iter()
		.map(|(t, _)| t)
		.filter(|t| fr.valid(Kind::RiRef, t))
		// "seed only" passes start from the constructors' values and nothing else
		.filter(|t| !$seed_only || t.len() <= 2)
		.chain(
			// characters that only a query (iprivate) or only an IRI (ucschar) may hold, right after
			// every kind of path: a mutator that takes them for path text leaves an invalid buffer
			["s:/?\u{E000}", "s:/?\u{E000}#f", "s:?\u{E000}", "s:a?\u{E000}", "//h?\u{E000}", "/?\u{E000}", "?\u{E000}", "s://h/a?\u{E000}#é", "s:/#é", "s:/?é"]
				.iter()
				.map(|t| domains::b(t))
				.filter(|t| !$seed_only && f == Family::Iri && fr.valid(Kind::RiRef, t)),
		)
		.collect();
		let paths: Vec<Vec<u8>> = paths.into_iter().filter(|p| !$seed_only || p.len() <= 1).collect();
		let tag = if $seed_only { "seedpass_" } else { "" };
		for ty in [BufTy::RiRefBuf, BufTy::RiBuf, BufTy::PathBuf] {
			let mut seen: HashSet<Vec<u8>> = HashSet::new();
			// (state, initial, history)
			let mut frontier: Vec<(Vec<u8>, Vec<u8>, Vec<MOp>)> = Vec::new();
			let mut add_init = |t: Vec<u8>, seen: &mut HashSet<Vec<u8>>, frontier: &mut Vec<(Vec<u8>, Vec<u8>, Vec<MOp>)>| {
				if seen.insert(t.clone()) {
					frontier.push((t.clone(), t, vec![]));
				}
			};
			match ty {
				BufTy::RiRefBuf => {
					add_init(vec![], &mut seen, &mut frontier); // Default
					for t in &refdom {
						add_init(t.clone(), &mut seen, &mut frontier);
					}
				}
				BufTy::RiBuf => {
					add_init(b"s:".to_vec(), &mut seen, &mut frontier); // from_scheme
					for t in &refdom {
						if syntax::split(t).scheme.is_some() {
							add_init(t.clone(), &mut seen, &mut frontier);
						}
					}
				}
				BufTy::PathBuf => {
					for p in &paths {
						if fr.valid(Kind::Path, p) {
							add_init(p.clone(), &mut seen, &mut frontier);
						}
					}
				}
			}
			total.count(&format!("{tag}{}_{}_initial_states", f.name(), ty.name()), frontier.len() as u64);
			for d in 0..$depth {
				let shards = 64usize;
				let fref = &frontier;
				let opsr = &ops;
				let frr = &fr;
				let r = run_shards($ctx, shards, |si| {
					let mut r = Report::new();
					let mut vs = Vec::new();
					let mut succ: Vec<(Vec<u8>, usize, usize)> = Vec::new();
					for (i, (state, init, hist)) in fref.iter().enumerate() {
						if i % shards != si {
							continue;
						}
						r.states += 1;
						for (oi, op) in opsr.iter().enumerate() {
							if !c04_applicable(ty, state, op) {
								continue;
							}
							r.transitions += 1;
							if let Some(t) = c04_step(ty, init, hist, state, op, frr, &mut vs) {
								if t.len() > MAX_LEN {
									r.count("successors_cut_by_length", 1);
								} else if t != *state {
									succ.push((t, i, oi));
								}
							}
							if r.transitions % 200003 == 1 {
								r.sample(c04_input(ty, init, hist, op));
							}
							for v in vs.drain(..) {
								r.violate(v);
							}
						}
					}
					r.info.insert(format!("succ{si}"), json!(succ.iter().map(|(t, i, o)| json!([crate::engine::bytes_json(t), i, o])).collect::<Vec<_>>()));
					r
				});
				// merge successors deterministically (shard order, then discovery order)
				let mut next: Vec<(Vec<u8>, Vec<u8>, Vec<MOp>)> = Vec::new();
				if d + 1 < $depth {
					for si in 0..shards {
						if let Some(list) = r.info.get(&format!("succ{si}")).and_then(|v| v.as_array()) {
							for e in list {
								let t = crate::engine::json_bytes(&e[0]).unwrap();
								if seen.insert(t.clone()) {
									let i = e[1].as_u64().unwrap() as usize;
									let oi = e[2].as_u64().unwrap() as usize;
									let mut h = frontier[i].2.clone();
									h.push(ops[oi].clone());
									next.push((t, frontier[i].1.clone(), h));
								}
							}
						}
					}
				}
				let mut r = r;
				r.info.clear();
				if d + 1 < $depth {
					total.count(&format!("{tag}{}_{}_depth{}_new_states", f.name(), ty.name(), d + 1), next.len() as u64);
				} else {
					// successors of the last level are judged by c04_step but not expanded or stored
					total.count(&format!("{tag}{}_{}_depth{}_successors_judged_not_expanded", f.name(), ty.name(), d + 1), r.transitions);
				}
				total.merge(r);
				frontier = next;
				if $ctx.out_of_time() {
					total.cap(format!("wall clock reached at {} {} depth {}", f.name(), ty.name(), d + 1));
					break;
				}
			}
		}
		total
	}};
}

pub fn run(ctx: &Ctx) -> Report {
	let refs = Refs::new(&ctx.root);
	let mut total = Report::new();
	total.rule = "explicit-state BFS: state = buffer text of one owned type (RiRefBuf, RiBuf, PathBuf of both families); initial states = Default, from_scheme and compositions scheme x authority x PATH(2) x query x fragment (pass 1, depth d), and only the constructor values '', 's:', '/' (pass 2, depth d+1: every buffer that can be built from nothing by d safe calls, then one more call); transitions = every safe mutator (5 setters, 6 path edits through path_mut, 3 authority edits through authority_mut, in-place resolve) over an argument alphabet that contains every value needing disambiguation; invariant in every reached state: no panic, UTF-8, accepted by the checked constructor of the same type and by the reference DFA, all accessors run; de-duplication on the text is exact because no handle survives a transition; successors longer than 40 bytes are cut (counted). non-trivial = distinct (type, state, operation) transition".into();
	let depth = ctx.pick(2usize, 3usize);
	let level = ctx.pick(0u8, 1u8);
	let uri_too = Family::active().contains(&Family::Uri);
	if uri_too {
		total.merge(explore!(uri, Family::Uri, ctx, refs, depth, level, false));
	}
	total.merge(explore!(iri, Family::Iri, ctx, refs, depth, level, false));
	// second pass: longer histories from the values the constructors give (Default, from_scheme,
	// the empty and the root path), i.e. every buffer that can be BUILT by <= seed_depth safe calls
	let seed_depth = ctx.pick(3usize, 4usize);
	if uri_too {
		total.merge(explore!(uri, Family::Uri, ctx, refs, seed_depth, 0u8, true));
	}
	total.merge(explore!(iri, Family::Iri, ctx, refs, seed_depth, 0u8, true));
	total.distinct_nontrivial = total.transitions;
	total.evaluations = total.transitions;
	total.traces = total.transitions;
	total.info.insert("bounds".into(), json!({"depth": depth, "seed_pass_depth": seed_depth, "alphabet_level": level, "max_text_bytes": MAX_LEN}));
	total
}

pub fn replay(ctx: &Ctx, _check: &str, input: &Value) -> Vec<Violation> {
	let refs = Refs::new(&ctx.root);
	match super::input_family(input) {
		Some(f) => {
			let fr = FamRefs::new(refs, f);
			by_family!(f, c04_replay(input, &fr))
		}
		None => vec![],
	}
}
