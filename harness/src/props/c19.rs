//! C19 driver: every %XX octet pattern class in every percent-decodable component.

use crate::by_family;
use crate::engine::{run_shards, Ctx, Report, Violation};
use crate::fam::{Family, Kind};
use crate::model::{domains, equiv, Refs};
use serde_json::{json, Value};

pub fn tokens(f: Family) -> Vec<Vec<u8>> {
	let mut v: Vec<&str> = vec!["a", "A", "%41", "%C3", "%A9", "%80", "%BF", "%C0", "%C1", "%E0", "%ED", "%A0", "%F0", "%F4", "%90", "%F5", "%FF", "%2F", "%25", "%E2", "%82", "%AC", "+"];
	if f == Family::Iri {
		v.push("é");
	}
	v.into_iter().map(domains::b).collect()
}

/// well-formed plain texts to compare against (domain of the "== str" clause)
pub fn others() -> Vec<String> {
	vec!["", "a", "A", "aa", "é", "aé", "/", "%", "\u{20AC}", "\u{FFFD}", "\u{0}", "@", "\u{80}", "\u{7F}", "\u{40}"].into_iter().map(|s| s.to_string()).collect()
}

pub const KINDS: [Kind; 5] = [Kind::Segment, Kind::Host, Kind::UserInfo, Kind::Query, Kind::Fragment];

pub fn run(ctx: &Ctx) -> Report {
	let refs = Refs::new(&ctx.root);
	let mut total = Report::new();
	total.rule = "component values = all sequences of <= n tokens over {a, (é), %41, %C3, %A9, %80, %BF, %C0, %C1, %E0, %ED, %A0, %F0, %F4, %90, %F5, %FF, %2F, %25, %E2, %82, %AC} (every class of the UTF-8 decoding automaton) for Segment, Host, UserInfo, Query, Fragment of both families, stand-alone and obtained from a parsed URI/IRI; per value: bytes(), chars(), len(), decode(), == str against a list of well-formed texts, Deref, into_pct_string; every ill-formed value compared (==, !=, cmp, both directions) with the well-formed text a lossy decoder would make of it; non-trivial = distinct (family, component, text, embedding)".into();
	let n = ctx.pick(3usize, 4usize);
	let oth = others();
	for f in Family::active() {
		let toks = tokens(f);
		for k in KINDS {
			let d = refs.dfa(f, k);
			let shards = domains::raw_shard_count(toks.len());
			let r = run_shards(ctx, shards, |si| {
				let mut r = Report::new();
				let mut vs = Vec::new();
				domains::for_each_raw(&toks, n, si, |t| {
					if !crate::model::ref_valid(&d, f, k, t) {
						return;
					}
					r.states += 1;
					let wf = std::str::from_utf8(&equiv::pct_octets(t)).is_ok();
					r.count(if wf { "wellformed_values" } else { "illformed_values" }, 1);
					for emb in [false, true] {
						let e = by_family!(f, c19_case(k, t, emb, &oth, &mut vs));
						r.evaluations += e;
						r.transitions += e;
						r.distinct_nontrivial += 1;
						r.traces += 1;
					}
					if !wf {
						let e = by_family!(f, c19_lossy_twin_case(k, t, &mut vs));
						r.evaluations += e;
						r.transitions += e;
					}
					if r.states % 7919 == 1 {
						r.sample(by_family!(f, c19_input(k, t, false)));
					}
					for v in vs.drain(..) {
						r.violate(v);
					}
				});
				r
			});
			total.merge(r);
			if ctx.out_of_time() {
				total.cap(format!("wall clock reached after {} {}", f.name(), k.name()));
				return total;
			}
		}
	}
	// host kinds that are not token sequences of the alphabet above (IP literals, IPv4), and
	// values with other delimiters of their component
	let extra: Vec<(Kind, &str)> = vec![
		(Kind::Host, "[::1]"), (Kind::Host, "[::]"), (Kind::Host, "[2001:db8::7]"), (Kind::Host, "[v1.a]"), (Kind::Host, "[::ffff:1.2.3.4]"), (Kind::Host, "1.2.3.4"), (Kind::Host, "a.b"),
		(Kind::UserInfo, "u:p"), (Kind::UserInfo, ":"), (Kind::UserInfo, "u;v=w"),
		(Kind::Query, "a=b&c=d"), (Kind::Query, "?/"), (Kind::Fragment, "?/"), (Kind::Segment, "a:b@c"), (Kind::Segment, ";p=1"),
	];
	for f in Family::active() {
		let mut r = Report::new();
		let mut vs = Vec::new();
		for (k, t) in &extra {
			if !refs.valid(f, *k, t.as_bytes()) {
				continue;
			}
			r.states += 1;
			for emb in [false, true] {
				// the embedding template only fits percent-decodable reg-name-like values; skip
				// embedding where the value cannot sit in the template slot
				if emb && (*k == Kind::UserInfo && t.contains('@')) {
					continue;
				}
				let e = by_family!(f, c19_case(*k, t.as_bytes(), emb, &oth, &mut vs));
				r.evaluations += e;
				r.transitions += e;
				r.distinct_nontrivial += 1;
				r.traces += 1;
			}
			for v in vs.drain(..) {
				r.violate(v);
			}
		}
		// every printable ASCII character the component allows, literally, next to a letter and next
		// to an escape (a view that rewrites one specific character - '+', '~', ... - shows here)
		for k in KINDS {
			for t in domains::ascii_sweep(&["X", "aXa", "%41X", "X%C3%A9"]) {
				if !refs.valid(f, k, &t) {
					continue;
				}
				r.states += 1;
				for emb in [false, true] {
					if emb && ((k == Kind::UserInfo && t.contains(&b'@')) || (k == Kind::Host && (t.contains(&b':') || t.contains(&b'@') || t.contains(&b'['))) || (k == Kind::UserInfo && t.contains(&b':') && false)) {
						continue;
					}
					let e = by_family!(f, c19_case(k, &t, emb, &oth, &mut vs));
					r.evaluations += e;
					r.transitions += e;
					r.distinct_nontrivial += 1;
					r.traces += 1;
				}
				for v in vs.drain(..) {
					r.violate(v);
				}
			}
		}
		total.count("extra_component_values", r.states);
		total.merge(r);
	}
	total.info.insert("bounds".into(), json!({"tokens_max": n}));
	total
}

pub fn replay(_ctx: &Ctx, _check: &str, input: &Value) -> Vec<Violation> {
	let oth = others();
	match super::input_family(input) {
		Some(f) => by_family!(f, c19_replay(input, &oth)),
		None => vec![],
	}
}
