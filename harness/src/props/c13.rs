//! C13 driver: URI is embedded in IRI (conversions) and the two front-ends agree on ASCII input.

use crate::engine::{bytes_json, guard, json_bytes, lossy, run_shards, Ctx, Guard, Report, Violation};
use crate::fam::{Family, Kind};
use crate::model::{domains, ref_valid, syntax, FamRefs, Refs};
use iref::{Iri, IriBuf, IriRef, IriRefBuf, Uri, UriBuf, UriRef, UriRefBuf};
use serde_json::{json, Value};

fn same(a: &[u8], b: &[u8]) -> bool {
	a.as_ptr() == b.as_ptr() && a.len() == b.len()
}

/// All conversions starting from one IRI-reference text (valid per the reference IRI-reference
/// DFA). `uri_ok` / `uriref_ok`: reference URI / URI-reference verdicts; `has_scheme`.
pub fn conv_case(t: &[u8], uri_ok: bool, uriref_ok: bool, has_scheme: bool, out: &mut Vec<Violation>) -> u64 {
	conv_case_for("C13", t, uri_ok, uriref_ok, has_scheme, out)
}

/// `prop`: the property under which a disagreement is reported (C13 for the conversion laws,
/// C01 when the conversions are exercised as construction routes).
pub fn conv_case_for(prop: &'static str, t: &[u8], uri_ok: bool, uriref_ok: bool, has_scheme: bool, out: &mut Vec<Violation>) -> u64 {
	let input = json!({"text": bytes_json(t)});
	let mk = |what: &str| {
		Violation::new(prop, "conversion", what, input.clone())
			.feat("uri_valid", uri_ok)
			.feat("uriref_valid", uriref_ok)
			.feat("has_scheme", has_scheme)
	};
	let s = match std::str::from_utf8(t) {
		Ok(s) => s,
		Err(_) => return 0,
	};
	let mut n = 0u64;
	let r = guard(|| {
		let probs: std::cell::RefCell<Vec<(String, String)>> = std::cell::RefCell::new(Vec::new());
		let chk = |name: &str, got: Option<&[u8]>, want: bool, must_be_same_slice: bool| {
			match got {
				Some(b) => {
					if !want {
						probs.borrow_mut().push((name.to_string(), "converted although it must fail".into()));
					} else if b != t {
						probs.borrow_mut().push((name.to_string(), format!("text changed to {:?}", lossy(b))));
					} else if must_be_same_slice && !same(b, t) {
						probs.borrow_mut().push((name.to_string(), "borrowed conversion does not point at the original text".into()));
					}
				}
				None => {
					if want {
						probs.borrow_mut().push((name.to_string(), "failed although it must succeed".into()));
					}
				}
			}
		};
		let ir = IriRef::new(s).ok().expect("valid IRI reference");
		// reference -> everything
		chk("IriRef::as_iri", ir.as_iri().map(|x| x.as_bytes()), has_scheme, true);
		chk("IriRef::as_uri", ir.as_uri().map(|x| x.as_bytes()), uri_ok, true);
		chk("IriRef::as_uri_ref", ir.as_uri_ref().map(|x| x.as_bytes()), uriref_ok, true);
		chk("<&Iri>::try_from(&IriRef)", <&Iri>::try_from(ir).ok().map(|x| x.as_bytes()), has_scheme, true);
		chk("<&Uri>::try_from(&IriRef)", <&Uri>::try_from(ir).ok().map(|x| x.as_bytes()), uri_ok, true);
		chk("<&UriRef>::try_from(&IriRef)", <&UriRef>::try_from(ir).ok().map(|x| x.as_bytes()), uriref_ok, true);
		// failed borrowed conversions hand the original value back
		if let Err(e) = <&Uri>::try_from(ir) {
			if !same(e.0.as_bytes(), t) {
				probs.borrow_mut().push(("<&Uri>::try_from(&IriRef):error".into(), "error does not carry the original value".into()));
			}
		}
		if let Err(e) = <&Iri>::try_from(ir) {
			if !same(e.0.as_bytes(), t) {
				probs.borrow_mut().push(("<&Iri>::try_from(&IriRef):error".into(), "error does not carry the original value".into()));
			}
		}
		// owned
		let mk_owned = || IriRefBuf::new(s.to_string()).ok().expect("valid");
		let owned_chk = |name: &str, res: Result<Vec<u8>, Vec<u8>>, want: bool, _unused: &mut ()| match res {
			Ok(b) => {
				if !want {
					probs.borrow_mut().push((name.to_string(), "converted although it must fail".into()));
				} else if b != t {
					probs.borrow_mut().push((name.to_string(), format!("text changed to {:?}", lossy(&b))));
				}
			}
			Err(b) => {
				if want {
					probs.borrow_mut().push((name.to_string(), "failed although it must succeed".into()));
				} else if b != t {
					probs.borrow_mut().push((name.to_string(), format!("error returns {:?}, not the original value", lossy(&b))));
				}
			}
		};
		owned_chk("IriRefBuf::try_into_iri", mk_owned().try_into_iri().map(|x| x.into_bytes()).map_err(|e| e.0.into_bytes()), has_scheme, &mut ());
		owned_chk("IriRefBuf::try_into_uri", mk_owned().try_into_uri().map(|x| x.into_bytes()).map_err(|e| e.0.into_bytes()), uri_ok, &mut ());
		owned_chk("IriRefBuf::try_into_uri_ref", mk_owned().try_into_uri_ref().map(|x| x.into_bytes()).map_err(|e| e.0.into_bytes()), uriref_ok, &mut ());
		owned_chk("IriBuf::try_from(IriRefBuf)", IriBuf::try_from(mk_owned()).map(|x| x.into_bytes()).map_err(|e| e.0.into_bytes()), has_scheme, &mut ());
		owned_chk("UriBuf::try_from(IriRefBuf)", UriBuf::try_from(mk_owned()).map(|x| x.into_bytes()).map_err(|e| e.0.into_bytes()), uri_ok, &mut ());
		owned_chk("UriRefBuf::try_from(IriRefBuf)", UriRefBuf::try_from(mk_owned()).map(|x| x.into_bytes()).map_err(|e| e.0.into_bytes()), uriref_ok, &mut ());
		if has_scheme {
			let i = Iri::new(s).ok().expect("a valid reference with a scheme is an IRI");
			chk("Iri::as_iri_ref", Some(i.as_iri_ref().as_bytes()), true, true);
			chk("<&IriRef>::from(&Iri)", Some(<&IriRef>::from(i).as_bytes()), true, true);
			chk("Iri::as_uri", i.as_uri().map(|x| x.as_bytes()), uri_ok, true);
			chk("Iri::as_uri_ref", i.as_uri_ref().map(|x| x.as_bytes()), uriref_ok, true);
			chk("<&Uri>::try_from(&Iri)", <&Uri>::try_from(i).ok().map(|x| x.as_bytes()), uri_ok, true);
			chk("<&UriRef>::try_from(&Iri)", <&UriRef>::try_from(i).ok().map(|x| x.as_bytes()), uriref_ok, true);
			let mk_i = || IriBuf::new(s.to_string()).ok().expect("valid");
			owned_chk("IriBuf::into_iri_ref", Ok(mk_i().into_iri_ref().into_bytes()), true, &mut ());
			owned_chk("IriRefBuf::from(IriBuf)", Ok(IriRefBuf::from(mk_i()).into_bytes()), true, &mut ());
			owned_chk("IriBuf::try_into_uri", mk_i().try_into_uri().map(|x| x.into_bytes()).map_err(|e| e.0.into_bytes()), uri_ok, &mut ());
			owned_chk("IriBuf::try_into_uri_ref", mk_i().try_into_uri_ref().map(|x| x.into_bytes()).map_err(|e| e.0.into_bytes()), uriref_ok, &mut ());
			owned_chk("UriBuf::try_from(IriBuf)", UriBuf::try_from(mk_i()).map(|x| x.into_bytes()).map_err(|e| e.0.into_bytes()), uri_ok, &mut ());
			owned_chk("UriRefBuf::try_from(IriBuf)", UriRefBuf::try_from(mk_i()).map(|x| x.into_bytes()).map_err(|e| e.0.into_bytes()), uriref_ok, &mut ());
		} else if Iri::new(s).is_ok() {
			probs.borrow_mut().push(("Iri::new".into(), "accepted a reference without scheme".into()));
		}
		// the URI side: every URI (reference) is an IRI (reference) with identical text
		if uriref_ok {
			let ur = UriRef::new(t).ok().expect("valid URI reference");
			chk("UriRef::as_iri_ref", Some(ur.as_iri_ref().as_bytes()), true, true);
			chk("<&IriRef>::from(&UriRef)", Some(<&IriRef>::from(ur).as_bytes()), true, true);
			chk("UriRef::as_uri", ur.as_uri().map(|x| x.as_bytes()), has_scheme, true);
			chk("UriRef::as_iri", ur.as_iri().map(|x| x.as_bytes()), has_scheme, true);
			chk("<&Uri>::try_from(&UriRef)", <&Uri>::try_from(ur).ok().map(|x| x.as_bytes()), has_scheme, true);
			chk("<&Iri>::try_from(&UriRef)", <&Iri>::try_from(ur).ok().map(|x| x.as_bytes()), has_scheme, true);
			chk("AsRef<IriRef> for UriRef", Some(AsRef::<IriRef>::as_ref(ur).as_bytes()), true, true);
			{
				let ob = UriRefBuf::new(t.to_vec()).ok().expect("valid");
				chk("AsRef<IriRef> for UriRefBuf", Some(AsRef::<IriRef>::as_ref(&ob).as_bytes()), true, false);
			}
			let mk_u = || UriRefBuf::new(t.to_vec()).ok().expect("valid");
			owned_chk("UriRefBuf::into_iri_ref", Ok(mk_u().into_iri_ref().into_bytes()), true, &mut ());
			owned_chk("IriRefBuf::from(UriRefBuf)", Ok(IriRefBuf::from(mk_u()).into_bytes()), true, &mut ());
			owned_chk("UriRefBuf::try_into_uri", mk_u().try_into_uri().map(|x| x.into_bytes()).map_err(|e| e.0.into_bytes()), has_scheme, &mut ());
			owned_chk("UriRefBuf::try_into_iri", mk_u().try_into_iri().map(|x| x.into_bytes()).map_err(|e| e.0.into_bytes()), has_scheme, &mut ());
			owned_chk("UriBuf::try_from(UriRefBuf)", UriBuf::try_from(mk_u()).map(|x| x.into_bytes()).map_err(|e| e.0.into_bytes()), has_scheme, &mut ());
			owned_chk("IriBuf::try_from(UriRefBuf)", IriBuf::try_from(mk_u()).map(|x| x.into_bytes()).map_err(|e| e.0.into_bytes()), has_scheme, &mut ());
			// the upcast result must be a valid IRI reference (unchecked cast justified by inclusion)
			if IriRef::new(ur.as_iri_ref().as_str()).is_err() {
				probs.borrow_mut().push(("UriRef::as_iri_ref:valid".into(), "the upcast value is not a valid IRI reference".into()));
			}
		}
		if uri_ok {
			let u = Uri::new(t).ok().expect("valid URI");
			chk("Uri::as_uri_ref", Some(u.as_uri_ref().as_bytes()), true, true);
			chk("Uri::as_iri", Some(u.as_iri().as_bytes()), true, true);
			chk("Uri::as_iri_ref", Some(u.as_iri_ref().as_bytes()), true, true);
			chk("AsRef<Iri> for Uri", Some(AsRef::<Iri>::as_ref(u).as_bytes()), true, true);
			chk("AsRef<IriRef> for Uri", Some(AsRef::<IriRef>::as_ref(u).as_bytes()), true, true);
			{
				let ob = UriBuf::new(t.to_vec()).ok().expect("valid");
				chk("AsRef<Iri> for UriBuf", Some(AsRef::<Iri>::as_ref(&ob).as_bytes()), true, false);
				chk("AsRef<IriRef> for UriBuf", Some(AsRef::<IriRef>::as_ref(&ob).as_bytes()), true, false);
			}
			let mk_u = || UriBuf::new(t.to_vec()).ok().expect("valid");
			owned_chk("UriBuf::into_uri_ref", Ok(mk_u().into_uri_ref().into_bytes()), true, &mut ());
			owned_chk("UriRefBuf::from(UriBuf)", Ok(UriRefBuf::from(mk_u()).into_bytes()), true, &mut ());
			owned_chk("UriBuf::into_iri", Ok(mk_u().into_iri().into_bytes()), true, &mut ());
			owned_chk("UriBuf::into_iri_ref", Ok(mk_u().into_iri_ref().into_bytes()), true, &mut ());
			if Iri::new(u.as_iri().as_str()).is_err() {
				probs.borrow_mut().push(("Uri::as_iri:valid".into(), "the upcast value is not a valid IRI".into()));
			}
		} else if Uri::new(t).is_ok() {
			probs.borrow_mut().push(("Uri::new".into(), "accepted a text the reference URI grammar rejects".into()));
		}
		probs.into_inner()
	});
	n += 1;
	match r {
		Guard::Ok(probs) => {
			for (name, p) in probs {
				out.push(mk(&name).obs(p).exp("conversion succeeds exactly when the target grammar accepts the text / a scheme is present, preserving the text; failures return the original value"));
			}
		}
		Guard::Panic(pm) => out.push(mk("panic").obs(format!("panic: {pm}")).exp("no panic")),
	}
	n
}

fn diff_ops() -> Vec<Value> {
	use crate::fam::uri::{AOp, MOp, SOp};
	use crate::model::pathops::Op;
	let b = domains::b;
	let mut ops: Vec<MOp> = vec![
		MOp::Set(SOp::Scheme(None)),
		MOp::Set(SOp::Scheme(Some(b("t")))),
		MOp::Set(SOp::Authority(None)),
		MOp::Set(SOp::Authority(Some(b("u@[::1]:8")))),
		MOp::Set(SOp::Authority(Some(b("")))),
		MOp::Set(SOp::Path(b(""))),
		MOp::Set(SOp::Path(b("//a"))),
		MOp::Set(SOp::Path(b("a:b"))),
		MOp::Set(SOp::Path(b("a/../b"))),
		MOp::Set(SOp::Query(None)),
		MOp::Set(SOp::Query(Some(b("x?y")))),
		MOp::Set(SOp::Fragment(None)),
		MOp::Set(SOp::Fragment(Some(b("z")))),
		MOp::Path(Op::Pop),
		MOp::Path(Op::Clear),
		MOp::Path(Op::Normalize),
		MOp::Path(Op::SymAppend(b("../x/./"))),
		MOp::Auth(AOp::SetUserinfo(None)),
		MOp::Auth(AOp::SetUserinfo(Some(b("w")))),
		// spellings that are == to what the domain holds ("u", "h") without being the same text
		MOp::Auth(AOp::SetUserinfo(Some(b("%75")))),
		MOp::Auth(AOp::SetHost(b("%68"))),
		MOp::Auth(AOp::SetHost(b("caf%c3%a9"))),
		MOp::Auth(AOp::SetHost(b("hostname"))),
		MOp::Auth(AOp::SetHost(b(""))),
		MOp::Auth(AOp::SetPort(None)),
		MOp::Auth(AOp::SetPort(Some(b("99")))),
		MOp::Resolve(b("s://h/a/b?q")),
		MOp::Resolve(b("s:a")),
	];
	for s in ["", ".", "..", "a", "a:b"] {
		ops.push(MOp::Path(Op::Push(b(s))));
		ops.push(MOp::Path(Op::SymPush(b(s))));
	}
	ops.iter().map(|o| o.to_json()).collect()
}

pub fn run(ctx: &Ctx) -> Report {
	let refs = Refs::new(&ctx.root);
	let mut total = Report::new();
	total.rule = "conversions: every valid IRI reference of RAW(n) (tokens incl. non-ASCII) and of the structured reference domain through every as_*/into_*/try_into_*/TryFrom/From between the eight URI/IRI types, judged by the reference URI / URI-reference DFAs and the presence of a scheme; differential: every ASCII reference of the structured domain observed through both front-ends (accessors, authority, path queries, normalisation, base; 30 mutations; all ordered pairs of a sub-domain for ==/cmp/hash/resolve/relative_to/suffix); non-trivial = distinct text / (text, op) / pair".into();
	let fr_iri = FamRefs::new(refs, Family::Iri);
	let fr_uri = FamRefs::new(refs, Family::Uri);
	// ---- conversions on RAW(n) over the IRI token alphabet
	let alpha = domains::raw_alphabet(Family::Iri, 0);
	let d = refs.dfa(Family::Iri, Kind::RiRef);
	let rawn = ctx.pick(6usize, 7usize);
	let r = run_shards(ctx, domains::raw_shard_count(alpha.len()), |si| {
		let mut r = Report::new();
		let mut vs = Vec::new();
		domains::for_each_raw(&alpha, rawn, si, |t| {
			if !ref_valid(&d, Family::Iri, Kind::RiRef, t) {
				return;
			}
			let uriref_ok = fr_uri.valid(Kind::RiRef, t);
			let uri_ok = fr_uri.valid(Kind::Ri, t);
			let has_scheme = syntax::split(t).scheme.is_some();
			r.states += 1;
			r.count(if uriref_ok { "conv_uri_compatible" } else { "conv_iri_only" }, 1);
			r.evaluations += conv_case(t, uri_ok, uriref_ok, has_scheme, &mut vs);
			if r.states % 70001 == 1 {
				r.sample(json!({"text": String::from_utf8_lossy(t)}));
			}
			for v in vs.drain(..) {
				r.violate(v);
			}
		});
		r
	});
	total.merge(r);
	// ---- conversions on texts holding a block-boundary or otherwise special scalar in each position
	{
		let mut r = Report::new();
		let mut vs = Vec::new();
		for t in domains::special_scalar_texts() {
			if !fr_iri.valid(Kind::RiRef, &t) {
				r.count("special_scalar_texts_invalid", 1);
				continue;
			}
			r.states += 1;
			r.evaluations += conv_case(&t, fr_uri.valid(Kind::Ri, &t), fr_uri.valid(Kind::RiRef, &t), syntax::split(&t).scheme.is_some(), &mut vs);
			for v in vs.drain(..) {
				r.violate(v);
			}
		}
		total.count("special_scalar_texts", r.states);
		total.merge(r);
	}
	// ---- conversions + differential on the structured domain
	let dom: Vec<Vec<u8>> = super::c02::ref_domain(Family::Iri, &fr_iri, 1, 2, 0).into_iter().map(|(t, _)| t).collect();
	let ops = diff_ops();
	let shards = 64usize;
	let r = run_shards(ctx, shards, |si| {
		let mut r = Report::new();
		let mut vs = Vec::new();
		for (i, t) in dom.iter().enumerate() {
			if i % shards != si {
				continue;
			}
			let uriref_ok = fr_uri.valid(Kind::RiRef, t);
			let uri_ok = fr_uri.valid(Kind::Ri, t);
			let has_scheme = syntax::split(t).scheme.is_some();
			r.states += 1;
			r.evaluations += conv_case(t, uri_ok, uriref_ok, has_scheme, &mut vs);
			if uriref_ok {
				// differential: same observation through both families
				let (u, iobs) = (crate::fam::uri::c13_obs_value(t), crate::fam::iri::c13_obs_value(t));
				r.evaluations += 1;
				r.count("diff_values", 1);
				if u != iobs {
					vs.push(Violation::new("C13", "differential", "read-only", json!({"text": bytes_json(t)})).obs(format!("URI: {u}")).exp(format!("IRI: {iobs}")));
				}
				for op in &ops {
					let (u, iobs) = (crate::fam::uri::c13_obs_mut(t, op), crate::fam::iri::c13_obs_mut(t, op));
					r.evaluations += 1;
					r.count("diff_mutations", 1);
					if u != iobs {
						vs.push(
							Violation::new("C13", "differential", "mutation", json!({"text": bytes_json(t), "op": op}))
								.feat("op", op.as_object().and_then(|o| o.keys().next().cloned()).unwrap_or_default())
								.obs(format!("URI: {u}"))
								.exp(format!("IRI: {iobs}")),
						);
					}
				}
			}
			for v in vs.drain(..) {
				r.violate(v);
			}
		}
		r
	});
	total.count("structured_domain", dom.len() as u64);
	total.merge(r);
	// ---- differential on ordered pairs of a sub-domain
	let sub: Vec<Vec<u8>> = {
		let mut paths: Vec<&str> = vec!["", "/", "/a", "/a/b", "/a/./b/..", "a", "a/b", "../a", "//a", "/%61",
			// a sub-delimiter below '/' where another path has '/': segment order != byte order
			"a-b", "a-b/c", "/a-b", "/a!b/c"];
		if !ctx.quick() {
			paths.extend(["a:b", "./a:b", "/a/", "/a//b", ".", ".."]);
		}
		let paths: Vec<Vec<u8>> = paths.into_iter().map(domains::b).collect();
		domains::references(
			&[None, Some(domains::b("s")), Some(domains::b("t"))],
			// "[::a]" / "[::A]": IP literals that differ by letter case only (unequal in both families)
			&[None, Some(domains::b("")), Some(domains::b("h")), Some(domains::b("u@h:8")), Some(domains::b("[::a]")), Some(domains::b("[::A]"))],
			&paths,
			&[None, Some(domains::b("q"))],
			&[None, Some(domains::b("f"))],
		)
		.into_iter()
		.map(|(t, _)| t)
		.filter(|t| fr_uri.valid(Kind::RiRef, t))
		.chain(["s:./a:b", "s:x/../a:b", "s:a:b", "s:.//a", "s:x/..//a", "./a:b?q", ".//a", "s://h/p#%FF", "s://h/p#%FE", "s://h/p#%EF%BF%BD", "s://h/p?%FF", "s://h/p?%FE", "s://h/%FF", "s://h/%FE", "s://[1:2:3:4:5:6::8]/", "s://[1:2:3:4:5:6:7:8]/"].iter().map(|t| domains::b(t)))
		.collect()
	};
	let r = run_shards(ctx, shards, |si| {
		let mut r = Report::new();
		for (i, a) in sub.iter().enumerate() {
			if i % shards != si {
				continue;
			}
			for b in &sub {
				let (u, iobs) = (crate::fam::uri::c13_obs_pair(a, b), crate::fam::iri::c13_obs_pair(a, b));
				r.evaluations += 1;
				r.transitions += 1;
				if u != iobs {
					r.violate(Violation::new("C13", "differential", "pair", json!({"a": bytes_json(a), "b": bytes_json(b)})).obs(format!("URI: {u}")).exp(format!("IRI: {iobs}")));
				}
			}
		}
		r
	});
	total.count("diff_pairs", r.transitions);
	total.merge(r);
	total.distinct_nontrivial = total.states + total.counters.get("diff_mutations").copied().unwrap_or(0) + total.counters.get("diff_pairs").copied().unwrap_or(0);
	total.transitions = total.evaluations;
	total.traces = total.evaluations;
	total.info.insert("bounds".into(), json!({"raw_tokens_max": rawn, "pair_subdomain": sub.len()}));
	total
}

pub fn replay(ctx: &Ctx, check: &str, input: &Value) -> Vec<Violation> {
	let refs = Refs::new(&ctx.root);
	let mut out = Vec::new();
	if check == "conversion" {
		if let Some(t) = json_bytes(&input["text"]) {
			let fr_uri = FamRefs::new(refs, Family::Uri);
			conv_case(&t, fr_uri.valid(Kind::Ri, &t), fr_uri.valid(Kind::RiRef, &t), syntax::split(&t).scheme.is_some(), &mut out);
		}
	} else if let (Some(a), Some(b)) = (json_bytes(&input["a"]), json_bytes(&input["b"])) {
		let (u, i) = (crate::fam::uri::c13_obs_pair(&a, &b), crate::fam::iri::c13_obs_pair(&a, &b));
		if u != i {
			out.push(Violation::new("C13", "differential", "pair", input.clone()).obs(format!("URI: {u}")).exp(format!("IRI: {i}")));
		}
	} else if let Some(t) = json_bytes(&input["text"]) {
		if input.get("op").is_some() {
			let (u, i) = (crate::fam::uri::c13_obs_mut(&t, &input["op"]), crate::fam::iri::c13_obs_mut(&t, &input["op"]));
			if u != i {
				out.push(
					Violation::new("C13", "differential", "mutation", input.clone())
						.feat("op", input["op"].as_object().and_then(|o| o.keys().next().cloned()).unwrap_or_default())
						.obs(format!("URI: {u}"))
						.exp(format!("IRI: {i}")),
				);
			}
		} else {
			let (u, i) = (crate::fam::uri::c13_obs_value(&t), crate::fam::iri::c13_obs_value(&t));
			if u != i {
				out.push(Violation::new("C13", "differential", "read-only", input.clone()).obs(format!("URI: {u}")).exp(format!("IRI: {i}")));
			}
		}
	}
	out
}
