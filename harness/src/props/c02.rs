//! C02 driver: RAW(n) and REF sweeps of the decomposition accessors.
//! C03 driver: authority accessor sweep (same file: they share domains).

use crate::by_family;
use crate::engine::{run_shards, Ctx, Report, Violation};
use crate::fam::{Family, Kind};
use crate::model::{domains, ref_valid, syntax, FamRefs, Refs};
use serde_json::{json, Value};

/// greedy tokenisation over a prefix-free alphabet; Some(number of tokens)
pub fn tokenizes(t: &[u8], alpha: &[Vec<u8>]) -> Option<usize> {
	let mut i = 0;
	let mut n = 0;
	'outer: while i < t.len() {
		for a in alpha {
			if t[i..].starts_with(a) {
				i += a.len();
				n += 1;
				continue 'outer;
			}
		}
		return None;
	}
	Some(n)
}

/// The REF domain of a family at a given level, valid members only.
pub fn ref_domain(f: Family, fr: &FamRefs, level: u8, path_n: usize, path_level: u8) -> Vec<(Vec<u8>, syntax::Parts)> {
	let auths: Vec<Option<Vec<u8>>> =
		std::iter::once(None).chain(domains::authorities(f, level).into_iter().map(|(t, _)| Some(t))).collect();
	let paths = domains::paths(&domains::seg_alphabet(f, path_level), path_n);
	let all = domains::references(
		&domains::scheme_options(level),
		&auths,
		&paths,
		&domains::query_options(f, level),
		&domains::fragment_options(f, level),
	);
	all.into_iter().filter(|(t, _)| fr.valid(Kind::RiRef, t)).collect()
}

pub fn run(ctx: &Ctx) -> Report {
	let refs = Refs::new(&ctx.root);
	let mut total = Report::new();
	total.rule = "RAW: every string of <= n tokens over {a : / ? # @ 1 %41 . [ ] (é)} (+decoys in thorough) accepted by the reference URI-/IRI-reference DFA; REF: compositions scheme x AUTH x PATH x query x fragment that re-split to the chosen components, plus compositions of components of 7..9 / 15..17 / 31..33 bytes, schemes of 254..300 bytes, and every printable ASCII character one at a time in every component position; one case = one reference text through accessors, parts(), borrowed and owned, reference and non-reference type; non-trivial = distinct valid text".into();
	let raw_n = ctx.pick(7usize, 8usize);
	for f in Family::active() {
		let fr = FamRefs::new(refs, f);
		let alpha = domains::raw_alphabet(f, 0);
		let shards = domains::raw_shard_count(alpha.len());
		let d = refs.dfa(f, Kind::RiRef);
		let r = run_shards(ctx, shards, |si| {
			let mut r = Report::new();
			let mut vs = Vec::new();
			let mut n = 0u64;
			domains::for_each_raw(&alpha, raw_n, si, |t| {
				n += 1;
				if !ref_valid(&d, f, Kind::RiRef, t) {
					return;
				}
				r.states += 1;
				let e = by_family!(f, c02_case(t, &fr, &mut vs));
				r.evaluations += e;
				r.transitions += e;
				if r.states % 50021 == 1 {
					r.sample(by_family!(f, text_input(t)));
				}
				for v in vs.drain(..) {
					r.violate(v);
				}
			});
			r.count(&format!("{}_raw_strings", f.name()), n);
			r.distinct_nontrivial = r.states;
			r.traces = r.states;
			r
		});
		total.count(&format!("{}_raw_valid", f.name()), r.states);
		total.merge(r);
		if ctx.out_of_time() {
			total.cap(format!("wall clock reached after RAW sweep of {}", f.name()));
			return total;
		}
		// thorough: decoy bytes at a smaller length (data-independence re-checked, not assumed)
		if !ctx.quick() {
			let alpha1 = domains::raw_alphabet(f, 1);
			let shards = domains::raw_shard_count(alpha1.len());
			let r = run_shards(ctx, shards, |si| {
				let mut r = Report::new();
				let mut vs = Vec::new();
				domains::for_each_raw(&alpha1, 6, si, |t| {
					if !ref_valid(&d, f, Kind::RiRef, t) {
						return;
					}
					// distinct: skip what the level-0 sweep already covered
					if tokenizes(t, &alpha).map(|k| k <= raw_n).unwrap_or(false) {
						return;
					}
					r.states += 1;
					let e = by_family!(f, c02_case(t, &fr, &mut vs));
					r.evaluations += e;
					r.transitions += e;
					for v in vs.drain(..) {
						r.violate(v);
					}
				});
				r.distinct_nontrivial = r.states;
				r.traces = r.states;
				r
			});
			total.count(&format!("{}_raw_decoy_valid", f.name()), r.states);
			total.merge(r);
		}
		// IRI family: characters whose UTF-8 bytes are "high-bit twins" of the delimiters
		// (0xA3 ~ '#', 0xBF ~ '?', 0xBA ~ ':', 0xAF ~ '/', 0xA5 ~ '%', 0xAE ~ '.', lead bytes
		// 0xDB ~ '[', 0xDD ~ ']'): a scanner that masks or mis-compares bytes shows up here
		if f == Family::Iri {
			// ... and characters whose CODE POINT ends in a delimiter's byte (U+0140 ~ '@',
			// U+013A ~ ':', U+012F ~ '/', U+013F ~ '?', U+0123 ~ '#', U+015B ~ '[', U+015D ~ ']'):
			// a scanner that truncates `char as u8` shows up here
			let twins: Vec<Vec<u8>> = [
				"a", ":", "/", "?", "#", "@", "£", "¿", "º", "¯", "¥", "®", "\u{6C0}", "\u{750}", "\u{140}", "\u{13A}", "\u{12F}", "\u{13F}", "\u{123}", "\u{15B}", "\u{15D}",
			]
			.iter()
			.map(|s| domains::b(s))
			.collect();
			let shards = domains::raw_shard_count(twins.len());
			let tn = ctx.pick(4usize, 5usize);
			let r = run_shards(ctx, shards, |si| {
				let mut r = Report::new();
				let mut vs = Vec::new();
				domains::for_each_raw(&twins, tn, si, |t| {
					if !ref_valid(&d, f, Kind::RiRef, t) || t.is_ascii() {
						return;
					}
					r.states += 1;
					let e = by_family!(f, c02_case(t, &fr, &mut vs));
					r.evaluations += e;
					r.transitions += e;
					for v in vs.drain(..) {
						r.violate(v);
					}
				});
				r.distinct_nontrivial = r.states;
				r.traces = r.states;
				r
			});
			total.count("iri_delimiter_twin_valid", r.states);
			total.merge(r);
		}
		// REF: the composition is streamed (never materialised); one shard per authority option.
		// quick: AUTH(level 1) x PATH(2) over the core segments; thorough: x PATH(3) over the core
		// segments and x PATH(2) over the level-1 segments
		let plans: Vec<(usize, u8)> = if ctx.quick() { vec![(2, 0)] } else { vec![(3, 0), (2, 1)] };
		for (path_n, path_level) in plans {
			let auths: Vec<Option<Vec<u8>>> = std::iter::once(None).chain(domains::authorities(f, 1).into_iter().map(|(t, _)| Some(t))).collect();
			let paths = domains::paths(&domains::seg_alphabet(f, path_level), path_n);
			let (schemes, queries, fragments) = (domains::scheme_options(1), domains::query_options(f, 1), domains::fragment_options(f, 1));
			let r = run_shards(ctx, auths.len(), |ai| {
				let mut r = Report::new();
				let mut vs = Vec::new();
				let one_auth = [auths[ai].clone()];
				for sc in &schemes {
					let one_scheme = [sc.clone()];
					for p in &paths {
						let one_path = [p.clone()];
						for (t, _parts) in domains::references(&one_scheme, &one_auth, &one_path, &queries, &fragments) {
							if !fr.valid(Kind::RiRef, &t) {
								continue;
							}
							if tokenizes(&t, &alpha).map(|k| k <= raw_n).unwrap_or(false) {
								r.count("ref_members_already_in_raw", 1);
								continue;
							}
							r.states += 1;
							let e = by_family!(f, c02_case(&t, &fr, &mut vs));
							r.evaluations += e;
							r.transitions += e;
							if r.states % 100003 == 7 {
								r.sample(by_family!(f, text_input(&t)));
							}
							for v in vs.drain(..) {
								r.violate(v);
							}
						}
					}
					if ctx.out_of_time() {
						r.cap("wall clock reached in the REF sweep");
						break;
					}
				}
				r.distinct_nontrivial = r.states;
				r.traces = r.states;
				r
			});
			total.count(&format!("{}_ref_valid_PATH({path_n})_level{path_level}", f.name()), r.states);
			total.merge(r);
		}
		// components whose lengths sit on and around 8-, 16- and 32-byte blocks, in every position
		{
			let bl = domains::block_length_segments();
			let o = |x: &[&str]| -> Vec<Option<Vec<u8>>> { x.iter().map(|s| Some(domains::b(s))).collect() };
			let mut auths: Vec<Option<Vec<u8>>> = vec![None];
			auths.extend(o(&["h"]));
			let mut paths: Vec<Vec<u8>> = vec![Vec::new(), b"/p".to_vec()];
			let mut queries: Vec<Option<Vec<u8>>> = vec![None];
			queries.extend(o(&["q"]));
			let mut fragments: Vec<Option<Vec<u8>>> = vec![None];
			fragments.extend(o(&["f"]));
			for x in &bl {
				auths.push(Some(x.clone()));
				let mut ua = x.clone();
				ua.extend_from_slice(b"@h:8");
				auths.push(Some(ua));
				let mut p = b"/".to_vec();
				p.extend_from_slice(x);
				paths.push(p.clone());
				p.push(b'/');
				p.extend_from_slice(x);
				paths.push(p);
				queries.push(Some(x.clone()));
				fragments.push(Some(x.clone()));
			}
			// components that are usually short: a scheme of 254..300 bytes, a port of 70 digits
			let mut schemes = vec![None, Some(domains::b("s"))];
			for n in [254usize, 255, 256, 300] {
				schemes.push(Some(format!("s{}", "c".repeat(n - 1)).into_bytes()));
			}
			auths.push(Some(format!("h:{}", "1234567890".repeat(7)).into_bytes()));

			let r = run_shards(ctx, auths.len(), |ai| {
				let mut r = Report::new();
				let mut vs = Vec::new();
				for (t, _) in domains::references(&schemes, &[auths[ai].clone()], &paths, &queries, &fragments) {
					if !fr.valid(Kind::RiRef, &t) {
						continue;
					}
					r.states += 1;
					let e = by_family!(f, c02_case(&t, &fr, &mut vs));
					r.evaluations += e;
					r.transitions += e;
					for v in vs.drain(..) {
						r.violate(v);
					}
				}
				r.distinct_nontrivial = r.states;
				r.traces = r.states;
				r
			});
			total.count(&format!("{}_block_length_refs", f.name()), r.states);
			total.merge(r);
		}
		// every printable ASCII character, one at a time, in every component position
		{
			let mut texts = domains::ascii_sweep(&[
				"X", "aX", "Xa", "s:X", "s:aXb", "sX:a", "//X", "//uX@h", "//X@h", "//hX", "//hX:1", "//h:1X", "//[::1]X", "/pX/q", "/p/Xq", "?X", "?aXb", "#X", "#aXb", "s://u@h:1/pX?qX#fX",
				"s://h/p?q#fX", "s://h/p?qX#f", "s://hX/p?q#f", "X//h", "a/X:b",
			]);
			// schemes that software commonly treats specially (this crate: "data" under its feature)
			texts.extend(domains::well_known_scheme_texts());
			// every printable ASCII character directly BEFORE a delimiter, at every offset modulo 8 / 16
			// (word-at-a-time scanners depend on the neighbouring byte and on the position in the block)
			for k in 0..=16usize {
				let pad = "a".repeat(k);
				for t in domains::ascii_sweep(&["s://h/PX?q#f", "s://h/p?PX#f", "s://PX/p", "PX:a", "s://u@h/PX/b"]) {
					texts.push(String::from_utf8(t).unwrap().replace('P', &pad).into_bytes());
				}
			}
			// block-boundary and otherwise special scalars in every component position (directly
			// before '?', '#', '/', ':' and '@')
			texts.extend(domains::special_scalar_texts());
			// offsets that do not fit 16 bits, one component at a time
			let huge = "z".repeat(70_000);
			for t in [format!("s://h/p?{huge}#f"), format!("s://h/{huge}/x?q#f"), format!("s://u@{huge}:1/p?q#f"), format!("s://h/p?q#{huge}"), format!("//{huge}@h/p"), format!("{huge}/x?q")] {
				texts.push(t.into_bytes());
			}
			let mut r = Report::new();
			let mut vs = Vec::new();
			for t in &texts {
				if !fr.valid(Kind::RiRef, t) {
					continue;
				}
				r.states += 1;
				let e = by_family!(f, c02_case(t, &fr, &mut vs));
				r.evaluations += e;
				r.transitions += e;
				for v in vs.drain(..) {
					r.violate(v);
				}
			}
			r.distinct_nontrivial = r.states;
			r.traces = r.states;
			total.count(&format!("{}_ascii_sweep_valid", f.name()), r.states);
			total.merge(r);
		}
		if ctx.out_of_time() {
			total.cap(format!("wall clock reached after REF sweep of {}", f.name()));
			return total;
		}
	}
	total.info.insert("bounds".into(), json!({"raw_tokens_max": raw_n, "ref_plans(path_segments_max,segment_level)": if ctx.quick() { json!([[2, 0]]) } else { json!([[3, 0], [2, 1]]) }}));
	total.assumptions.push("reference decomposition = RFC 3986 Appendix B regular expression, cross-checked by C01's reference DFAs on every returned component".into());
	total
}

pub fn replay(ctx: &Ctx, _check: &str, input: &Value) -> Vec<Violation> {
	let refs = Refs::new(&ctx.root);
	match super::input_family(input) {
		Some(f) => {
			let fr = FamRefs::new(refs, f);
			by_family!(f, c02_replay(input, &fr))
		}
		None => vec![],
	}
}

// ---------------------------------------------------------------------------------------------

pub fn auth_alphabet(f: Family) -> Vec<Vec<u8>> {
	let mut v: Vec<&str> = vec!["a", "1", ":", "@", "[", "]", ".", "%41", "v"];
	if f == Family::Iri {
		v.push("é");
	}
	v.into_iter().map(domains::b).collect()
}

/// IRI only: UTF-8 byte twins and code-point twins of the authority delimiters '@' ':' '[' ']'.
pub fn auth_twin_alphabet() -> Vec<Vec<u8>> {
	["a", ":", "@", "[", "]", "1", "º", "\u{6C0}", "\u{750}", "\u{140}", "\u{13A}", "\u{15B}", "\u{15D}"].iter().map(|s| domains::b(s)).collect()
}

pub fn run_c03(ctx: &Ctx) -> Report {
	let refs = Refs::new(&ctx.root);
	let mut total = Report::new();
	total.rule = "every string of <= n tokens over {a 1 : @ [ ] . %41 v (é)} accepted by the reference authority DFA, plus the product AUTH = userinfo x host x port, class-complete values (all digits, hex digits, sub-delimiters, many colons), each stand-alone and embedded in s://A/p?q#f, //A, s://A and s://A?q/r@:#f/g@:; one case = accessors and parts() on one authority; non-trivial = distinct (text, embedding)".into();
	let n = ctx.pick(7usize, 8usize);
	for f in Family::active() {
		let fr = FamRefs::new(refs, f);
		let alpha = auth_alphabet(f);
		let shards = domains::raw_shard_count(alpha.len());
		let d = refs.dfa(f, Kind::Authority);
		let wrap = |a: &[u8], which: usize| -> Vec<u8> {
			let mut t = Vec::new();
			match which {
				0 => {
					t.extend_from_slice(b"s://");
					t.extend_from_slice(a);
					t.extend_from_slice(b"/p?q#f");
				}
				1 => {
					t.extend_from_slice(b"//");
					t.extend_from_slice(a);
				}
				3 => {
					// empty path, then a query and a fragment holding the delimiters that END an authority
					t.extend_from_slice(b"s://");
					t.extend_from_slice(a);
					t.extend_from_slice(b"?q/r@:#f/g@:");
				}
				_ => {
					t.extend_from_slice(b"s://");
					t.extend_from_slice(a);
				}
			}
			t
		};
		let one = |a: &[u8], r: &mut Report, vs: &mut Vec<Violation>| {
			r.states += 1;
			let mut e = by_family!(f, c03_case(a, false, &fr, vs));
			for w in 0..4 {
				let t = wrap(a, w);
				e += by_family!(f, c03_case(&t, true, &fr, vs));
			}
			r.evaluations += e;
			r.transitions += e;
			r.distinct_nontrivial += 5;
			r.traces += 5;
			for v in vs.drain(..) {
				r.violate(v);
			}
		};
		let r = run_shards(ctx, shards, |si| {
			let mut r = Report::new();
			let mut vs = Vec::new();
			domains::for_each_raw(&alpha, n, si, |t| {
				if !ref_valid(&d, f, Kind::Authority, t) {
					return;
				}
				one(t, &mut r, &mut vs);
				if r.states % 20011 == 1 {
					r.sample(json!({"fam": f.name(), "authority": String::from_utf8_lossy(t)}));
				}
				let k = syntax::split_authority(t);
				r.count(
					match syntax::host_kind(&k.host) {
						syntax::HostKind::IpLiteral => "host_ip_literal",
						syntax::HostKind::Empty => "host_empty",
						syntax::HostKind::Other => "host_name",
					},
					1,
				);
			});
			r
		});
		total.count(&format!("{}_raw_valid_authorities", f.name()), r.states);
		total.merge(r);
		if f == Family::Iri {
			let tw = auth_twin_alphabet();
			let tn = ctx.pick(5usize, 6usize);
			let r = run_shards(ctx, domains::raw_shard_count(tw.len()), |si| {
				let mut r = Report::new();
				let mut vs = Vec::new();
				domains::for_each_raw(&tw, tn, si, |t| {
					if t.is_ascii() || !ref_valid(&d, f, Kind::Authority, t) {
						return;
					}
					one(t, &mut r, &mut vs);
				});
				r
			});
			total.count("iri_twin_authorities", r.states);
			total.merge(r);
		}
		// AUTH product
		let mut r = Report::new();
		let mut vs = Vec::new();
		for (t, _) in domains::authorities(f, 1) {
			if !fr.valid(Kind::Authority, &t) {
				r.count("auth_product_rejected_by_reference", 1);
				continue;
			}
			if tokenizes(&t, &alpha).map(|k| k <= n).unwrap_or(false) {
				continue;
			}
			one(&t, &mut r, &mut vs);
			if r.states % 37 == 1 {
				r.sample(json!({"fam": f.name(), "authority": String::from_utf8_lossy(&t)}));
			}
		}
		// class-complete values: every member of the small character classes at least once in
		// each position (all ten digits in ports and IPv4 octets, every hex digit in both cases in
		// IPv6 groups and %XX triplets, every sub-delimiter), and many delimiters in one authority
		for t in [
			"h:9", "h:0", "h:1234567890", "h:0987654321", "u@h:9", "[::1]:9", "[::9]:90", "255.249.199.9", "9.8.7.6:5", "[9:a:b:c:d:e:f:0]", "[A:B:C:D:E:F:0:9]:9",
			"[::ffff:9.8.7.6]", "[v9.a]", "[vF.9:9]", "[v1.x:y]", "[v1.x:y]:80", "u@[v1.x:y]:80", "[vA.-._~!$&'()*+,;=:z]", "[v1.fe80::a]:8080", "u@[v1.aaaaaaaaaaaaaaaaaaaaaaaaaaaaaaaaaaaaaaaaaaaaaaaaaaaaaaaaaaaaaaaaaaaa:x:y]:80", "[v1.aaaaaaaaaaaaaaaaaaaaaaaaaaaaaaaaaaaaaaaaaaaaaaaaaaaaaaaaaaaaaaaaaaaa:x:y]", "%0F%9A%af%Fa%bC", "%99@%99:99", "!$&'()*+,;=@!$&'()*+,;=:9", "u:p:q:r:s:t:u:v:w@[1:2:3:4:5:6:7:8]:80", "a.b.c.d.e.f.g.h.i.j.k",
			"0", "9", "09", "a9", "9a", "-._~", "%2D%2E%5F%7E",
			// ports around the limits of the machine integer types (the grammar has no limit)
			"h:255", "h:256", "h:65535", "h:65536", "h:4294967295", "h:4294967296", "h:18446744073709551615", "h:18446744073709551616", "h:340282366920938463463374607431768211456",
			"u:p@[::1]:18446744073709551616", "h:00000000000000000000000000000000000000001", "h:99999999999999999999999999999999999999999999999999999999999999999999",
			"u:18446744073709551616@h", "18446744073709551616", "u:1@h:18446744073709551616", "18446744073709551616:1",
		] {
			let t = domains::b(t);
			if fr.valid(Kind::Authority, &t) {
				one(&t, &mut r, &mut vs);
			} else {
				r.count("class_complete_rejected_by_reference", 1);
			}
		}
		// every printable ASCII character directly BEFORE each authority delimiter, at every offset
		// modulo 8 / 16 (word-at-a-time scanners depend on the neighbouring byte and on the position)
		for k in 0..=16usize {
			let pad = "a".repeat(k);
			for t in domains::ascii_sweep(&["PX@example.org:8080", "PX:8080", "u@PX:8080", "u:PX@h", "PX@[::1]:80"]) {
				let t = String::from_utf8(t).unwrap().replace('P', &pad).into_bytes();
				if fr.valid(Kind::Authority, &t) {
					one(&t, &mut r, &mut vs);
				}
			}
		}
		total.count(&format!("{}_auth_product", f.name()), r.states);
		total.merge(r);
		if ctx.out_of_time() {
			total.cap(format!("wall clock reached after {}", f.name()));
			return total;
		}
	}
	total.info.insert("bounds".into(), json!({"tokens_max": n}));
	total
}

pub fn replay_c03(ctx: &Ctx, _check: &str, input: &Value) -> Vec<Violation> {
	let refs = Refs::new(&ctx.root);
	match super::input_family(input) {
		Some(f) => {
			let fr = FamRefs::new(refs, f);
			by_family!(f, c03_replay(input, &fr))
		}
		None => vec![],
	}
}
