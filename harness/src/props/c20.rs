//! C20 driver.

use crate::by_family;
use crate::engine::{run_shards, Ctx, Report, Violation};
use crate::fam::{Family, Kind};
use crate::model::{domains, ref_valid, FamRefs, Refs};
use serde_json::{json, Value};

pub fn long_inputs(f: Family) -> Vec<Vec<u8>> {
	let rep = |s: &str, n: usize| s.repeat(n);
	let mut v: Vec<String> = Vec::new();
	let seg17 = vec!["a"; 17].join("/");
	let seg40 = vec!["bc"; 40].join("/");
	let big = rep("x", 5000);
	let mid = rep("y", 600);
	v.push(format!("s://u@h:8/{seg17}?q#f"));
	v.push(format!("s://u@h:8/{seg40}/../.?q#f"));
	v.push(format!("//{mid}/{seg40}"));
	v.push(format!("s:{big}"));
	v.push(format!("s://{big}@{mid}:80/{big}/{big}?{big}#{big}"));
	v.push(format!("{seg40}/{big}?{mid}"));
	v.push(format!("/{big}/{seg17}#{big}"));
	v.push(format!("s://[::1]:65535/{mid}"));
	if f == Family::Iri {
		let e = rep("é", 3000);
		v.push(format!("s://é@é/{e}/€/😀?{e}#{e}"));
		v.push(format!("é/{e}"));
	}
	v.into_iter().map(|s| s.into_bytes()).collect()
}

pub fn run(ctx: &Ctx) -> Report {
	let refs = Refs::new(&ctx.root);
	let mut total = Report::new();
	total.rule = "every valid reference of RAW(n) and of the structured reference domain, plus inputs far larger than any inline buffer (17/40 segments, 600/5000-byte components, multi-byte text); per input ~50 probes: allocation count (counting global allocator, per-thread) across new / validate / each accessor / parts() / full forward and backward segment iteration / first, last, file_name, directory, parent, parent_or_empty / base / authority accessors / component constructors; pointer range of every returned slice relative to the input; order and disjointness of the five components; non-trivial = distinct valid input".into();
	let rawn = ctx.pick(6usize, 7usize);
	for f in Family::active() {
		let fr = FamRefs::new(refs, f);
		let alpha = domains::raw_alphabet(f, 0);
		let d = refs.dfa(f, Kind::RiRef);
		let r = run_shards(ctx, domains::raw_shard_count(alpha.len()), |si| {
			let mut r = Report::new();
			let mut vs = Vec::new();
			domains::for_each_raw(&alpha, rawn, si, |t| {
				if !ref_valid(&d, f, Kind::RiRef, t) {
					return;
				}
				r.states += 1;
				r.evaluations += by_family!(f, c20_case(t, &mut vs));
				if r.states % 60013 == 1 {
					r.sample(by_family!(f, text_input(t)));
				}
				for v in vs.drain(..) {
					r.violate(v);
				}
			});
			r
		});
		total.count(&format!("{}_raw_valid", f.name()), r.states);
		total.merge(r);
		let mut dom: Vec<Vec<u8>> = super::c02::ref_domain(f, &fr, 1, 2, 0).into_iter().map(|(t, _)| t).collect();
		let longs = long_inputs(f);
		for l in &longs {
			assert!(fr.valid(Kind::RiRef, l), "long input is not valid: {}", String::from_utf8_lossy(&l[..40.min(l.len())]));
		}
		total.count(&format!("{}_long_inputs", f.name()), longs.len() as u64);
		dom.extend(longs);
		let shards = 64usize;
		let r = run_shards(ctx, shards, |si| {
			let mut r = Report::new();
			let mut vs = Vec::new();
			for (i, t) in dom.iter().enumerate() {
				if i % shards != si {
					continue;
				}
				r.states += 1;
				r.evaluations += by_family!(f, c20_case(t, &mut vs));
				for v in vs.drain(..) {
					r.violate(v);
				}
			}
			r
		});
		total.count(&format!("{}_structured", f.name()), r.states);
		total.merge(r);
		if ctx.out_of_time() {
			total.cap(format!("wall clock reached after {}", f.name()));
			break;
		}
	}
	total.distinct_nontrivial = total.states;
	total.transitions = total.evaluations;
	total.traces = total.states;
	total.info.insert("bounds".into(), json!({"raw_tokens_max": rawn}));
	total.assumptions.push("the counting allocator counts alloc, alloc_zeroed and realloc calls made by the probing thread; stack usage is not observed".into());
	total
}

pub fn replay(_ctx: &Ctx, _check: &str, input: &Value) -> Vec<Violation> {
	match super::input_family(input) {
		Some(f) => by_family!(f, c20_replay(input)),
		None => vec![],
	}
}
