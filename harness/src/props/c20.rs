//! C20 driver.

use crate::by_family;
use crate::engine::{run_shards, Ctx, Report, Violation};
use crate::fam::{Family, Kind};
use crate::model::{domains, ref_valid, FamRefs, Refs};
use serde_json::{json, Value};

pub fn long_inputs(f: Family) -> Vec<Vec<u8>> {
	let rep = |s: &str, n: usize| s.repeat(n);
	let mut v: Vec<String> = Vec::new();
	let seg17 = vec!["a"; 17].join("/");
	let seg40 = vec!["bc"; 40].join("/");
	let big = rep("x", 5000);
	let mid = rep("y", 600);
	v.push(format!("s://u@h:8/{seg17}?q#f"));
	v.push(format!("s://u@h:8/{seg40}/../.?q#f"));
	v.push(format!("//{mid}/{seg40}"));
	v.push(format!("s:{big}"));
	v.push(format!("s://{big}@{mid}:80/{big}/{big}?{big}#{big}"));
	v.push(format!("{seg40}/{big}?{mid}"));
	v.push(format!("/{big}/{seg17}#{big}"));
	v.push(format!("s://[::1]:65535/{mid}"));
	// offsets that do not fit 16 bits
	let huge = rep("z", 70_000);
	v.push(format!("s://h/{huge}/x?{huge}#{huge}"));
	v.push(format!("{huge}:{huge}"));
	// many delimiters of the same kind inside one component (inline buffers sized by "at most n")
	v.push("s://u:p:q:r:s:t:u:v:w:x@[1:2:3:4:5:6:7:8]:8080/p".to_string());
	v.push("//user:pw@[2001:db8:0:1:2:3:4:5]:8080".to_string());
	v.push("//[v1.a:b:c:d:e:f:g:h:i:j:k:l]:1".to_string());
	v.push(format!("s://h/p?{}#{}", "a=b&".repeat(40), "x/y?z:".repeat(40)));
	v.push(format!("s://{}h/{}", "a.".repeat(40), "a;b=c,".repeat(40)));
	v.push(format!("{}:x", format!("s{}", "+a.b-c".repeat(60))));
	if f == Family::Iri {
		let e = rep("é", 3000);
		v.push(format!("s://é@é/{e}/€/😀?{e}#{e}"));
		v.push(format!("é/{e}"));
	}
	v.into_iter().map(|s| s.into_bytes()).collect()
}

pub fn run(ctx: &Ctx) -> Report {
	let refs = Refs::new(&ctx.root);
	let mut total = Report::new();
	total.rule = "every valid reference of RAW(n) and of the structured reference domain, plus inputs far larger than any inline buffer (17/40 segments, 600/5000-byte components, multi-byte text); per input ~50 probes: allocation count (counting global allocator, per-thread) across new / validate / each accessor / parts() / full forward and backward segment iteration / first, last, file_name, directory, parent, parent_or_empty / base / authority accessors / component constructors; pointer range of every returned slice relative to the input; order and disjointness of the five components; the same for the borrowed data-URL view (constructors, try_from, borrowed deserialisation, media_type, encoded_data, parts); non-trivial = distinct valid input".into();
	let rawn = ctx.pick(6usize, 7usize);
	for f in Family::active() {
		let fr = FamRefs::new(refs, f);
		let alpha = domains::raw_alphabet(f, 0);
		let d = refs.dfa(f, Kind::RiRef);
		let r = run_shards(ctx, domains::raw_shard_count(alpha.len()), |si| {
			let mut r = Report::new();
			let mut vs = Vec::new();
			domains::for_each_raw(&alpha, rawn, si, |t| {
				if !ref_valid(&d, f, Kind::RiRef, t) {
					return;
				}
				r.states += 1;
				r.evaluations += by_family!(f, c20_case(t, &mut vs));
				if r.states % 60013 == 1 {
					r.sample(by_family!(f, text_input(t)));
				}
				for v in vs.drain(..) {
					r.violate(v);
				}
			});
			r
		});
		total.count(&format!("{}_raw_valid", f.name()), r.states);
		total.merge(r);
		let mut dom: Vec<Vec<u8>> = super::c02::ref_domain(f, &fr, 1, 2, 0).into_iter().map(|(t, _)| t).collect();
		let longs = long_inputs(f);
		for l in &longs {
			assert!(fr.valid(Kind::RiRef, l), "long input is not valid: {}", String::from_utf8_lossy(&l[..40.min(l.len())]));
		}
		total.count(&format!("{}_long_inputs", f.name()), longs.len() as u64);
		dom.extend(longs);
		// block-boundary and otherwise special scalars directly before each delimiter
		if f == Family::Iri {
			dom.extend(domains::special_scalar_texts().into_iter().filter(|t| fr.valid(Kind::RiRef, t)));
			dom.extend(domains::well_known_scheme_texts().into_iter().filter(|t| fr.valid(Kind::RiRef, t)));
		}
		let shards = 64usize;
		let r = run_shards(ctx, shards, |si| {
			let mut r = Report::new();
			let mut vs = Vec::new();
			for (i, t) in dom.iter().enumerate() {
				if i % shards != si {
					continue;
				}
				r.states += 1;
				r.evaluations += by_family!(f, c20_case(t, &mut vs));
				for v in vs.drain(..) {
					r.violate(v);
				}
			}
			r
		});
		total.count(&format!("{}_structured", f.name()), r.states);
		total.merge(r);
		if ctx.out_of_time() {
			total.cap(format!("wall clock reached after {}", f.name()));
			break;
		}
	}
	// the borrowed data-URL view of a URI (feature `data`): parsing and reading it is parsing and
	// reading a borrowed URI
	if Family::active().contains(&Family::Uri) {
		let mut r = Report::new();
		for t in data_url_inputs() {
			r.states += 1;
			for v in data_url_case(&t) {
				r.violate(v);
			}
			r.evaluations += 9;
		}
		total.count("data_url_inputs", r.states);
		total.merge(r);
	}
	total.distinct_nontrivial = total.states;
	total.transitions = total.evaluations;
	total.traces = total.states;
	total.info.insert("bounds".into(), json!({"raw_tokens_max": rawn}));
	total.assumptions.push("the counting allocator counts alloc, alloc_zeroed and realloc calls made by the probing thread; stack usage is not observed".into());
	total
}

pub fn data_url_inputs() -> Vec<String> {
	let mut v: Vec<String> = ["data:,", "data:,x", "data:text/plain,hello%20world", "data:;base64,QQ==", "data:text/plain;base64,SGVsbG8=", "data:a/b,;,"].iter().map(|s| s.to_string()).collect();
	v.push(format!("data:{},{}", "a/".repeat(300), "x".repeat(5000)));
	v.push(format!("data:text/plain;base64,{}", "QUJD".repeat(400)));
	// rejected texts: DataUrl::new hands the input back in its error, so it must not allocate either
	for t in ["data:;BASE64,QUJD", "data:text/plain;charset=utf-8,x", "data:text/plain;Base64,QUJD", "data:;base6,", "dat:,", "data:a b,", "data:text/plain"] {
		v.push(t.to_string());
	}
	v
}

/// Allocation count and pointer range of every borrowed route into and every read of a data URL.
pub fn data_url_case(t: &str) -> Vec<Violation> {
	use crate::engine::alloc;
	use iref::uri::data::DataUrl;
	let input = json!({"fam": "uri", "data_url": t});
	let mk = |acc: &str, what: &str| Violation::new("C20", "zero-copy", what, input.clone()).feat("accessor", acc);
	let mut out = Vec::new();
	let js = serde_json::to_string(t).unwrap();
	let base = t.as_ptr() as usize;
	let inside = |s: &[u8]| s.is_empty() || (s.as_ptr() as usize >= base && s.as_ptr() as usize + s.len() <= base + t.len());
	let r = crate::engine::guard(|| {
		let mut res: Vec<(&'static str, u64, bool)> = Vec::with_capacity(16);
		macro_rules! p {
			($name:expr, $e:expr) => {{
				let c0 = alloc::count();
				let x = $e;
				let c1 = alloc::count();
				res.push(($name, c1 - c0, x));
			}};
		}
		let accepted = DataUrl::new(t).is_ok();
		// (a rejected input comes back inside the error: same requirement on the payload)
		p!("DataUrl::new(&str)", match DataUrl::new(t) {
			Ok(d) => inside(d.as_str().as_bytes()),
			Err(e) => inside(e.0.as_bytes()),
		});
		p!("DataUrl::new(&[u8])", match DataUrl::new(t.as_bytes()) {
			Ok(d) => inside(d.as_str().as_bytes()),
			Err(e) => inside(e.0),
		});
		if accepted {
			// (the owned error of these two routes allocates by design: accepted inputs only)
			p!("<&DataUrl>::try_from(&str)", <&DataUrl>::try_from(t).map(|d| inside(d.as_str().as_bytes())).unwrap_or(false));
			if js.len() == t.len() + 2 {
				p!("<&DataUrl>::deserialize", serde_json::from_str::<&DataUrl>(&js).is_ok());
			}
		}
		if let Ok(d) = DataUrl::new(t) {
			p!("media_type", d.media_type().map(|m| inside(m.as_bytes())).unwrap_or(true));
			p!("is_base_64_encoded", {
				let _ = d.is_base_64_encoded();
				true
			});
			p!("encoded_data", inside(d.encoded_data().as_bytes()));
			p!("parts", {
				let q = d.parts();
				inside(q.data.as_bytes()) && q.media_type.map(|m| inside(m.as_bytes())).unwrap_or(true)
			});
			p!("as_uri", inside(d.as_uri().as_bytes()));
			if !d.is_base_64_encoded() {
				p!("decoded_data(not base64)", d.decoded_data().map(|c| inside(&c)).unwrap_or(false));
			}
		}
		res
	});
	match r {
		crate::engine::Guard::Ok(res) => {
			for (name, allocs, ok) in res {
				if allocs != 0 {
					out.push(mk(name, "allocates").obs(format!("{allocs} allocation(s)")).exp("no heap allocation"));
				}
				if !ok && name != "<&DataUrl>::deserialize" {
					out.push(mk(name, "foreign-slice").obs("result is not a sub-slice of the input (or the route failed)").exp("a sub-slice of the caller's input"));
				}
			}
		}
		crate::engine::Guard::Panic(pm) => out.push(mk("data-url", "panic").obs(format!("panic: {pm}")).exp("no panic")),
	}
	out
}

pub fn replay(_ctx: &Ctx, _check: &str, input: &Value) -> Vec<Violation> {
	if let Some(t) = input["data_url"].as_str() {
		return data_url_case(t);
	}
	match super::input_family(input) {
		Some(f) => by_family!(f, c20_replay(input)),
		None => vec![],
	}
}
