//! iref-mc: bounded exhaustive exploration of the iref library against reference models.
//!
//! usage: iref-mc <Cxx> [quick|thorough]
//!        iref-mc <Cxx> --replay <file>
//!        iref-mc selftest
//! Exit codes: 0 held (possibly KNOWN-FINDING lines), 1 VIOLATION, 2 machinery failure.

#![allow(clippy::all)]
#![allow(dead_code)]
#![allow(unused_imports)]

use serde_json::{json, Map, Value};
use std::collections::BTreeMap;
use std::io::Write;
use std::path::PathBuf;
use std::time::{Duration, Instant};

mod engine;
mod fam;
mod model;
mod props;

use engine::{Ctx, Report, Tier, Violation};

#[global_allocator]
static GLOBAL: engine::alloc::Counting = engine::alloc::Counting;

fn usage() -> ! {
	eprintln!("usage: iref-mc <Cxx> [quick|thorough] | <Cxx> --replay <file> | selftest");
	std::process::exit(2)
}

fn main() {
	engine::install_panic_hook();
	let args: Vec<String> = std::env::args().collect();
	if args.len() < 2 {
		usage();
	}
	let root = PathBuf::from(std::env::var("VERIF_ROOT").unwrap_or_else(|_| "/verif".to_string()));
	let seed: u64 = std::env::var("VERIF_SEED").ok().and_then(|s| s.parse().ok()).unwrap_or(0);
	let threads: usize = std::env::var("VERIF_THREADS")
		.ok()
		.and_then(|s| s.parse().ok())
		.unwrap_or_else(|| std::thread::available_parallelism().map(|n| n.get()).unwrap_or(4));

	if args[1] == "selftest" {
		let code = match engine::guard(|| model::selftest::run(&root)) {
			engine::Guard::Ok(true) => 0,
			engine::Guard::Ok(false) => 2,
			engine::Guard::Panic(m) => {
				eprintln!("selftest panicked: {m}");
				2
			}
		};
		std::process::exit(code);
	}

	let id = args[1].to_uppercase();
	let prop = match props::find(&id) {
		Some(p) => p,
		None => {
			eprintln!("unknown property {id}");
			std::process::exit(2);
		}
	};

	if args.len() >= 4 && args[2] == "--replay" {
		let text = std::fs::read_to_string(&args[3]).unwrap_or_else(|e| {
			eprintln!("cannot read {}: {e}", args[3]);
			std::process::exit(2)
		});
		let v: Value = serde_json::from_str(&text).unwrap_or_else(|e| {
			eprintln!("bad replay file: {e}");
			std::process::exit(2)
		});
		let ctx = mk_ctx(Tier::Quick, seed, threads, root.clone(), Duration::from_secs(600));
		let check = v["check"].as_str().unwrap_or("").to_string();
		let vs = replay_with_history(prop, &ctx, &check, &v["input"]);
		println!("replay property={} check={} input={}", prop.id, check, v["input"]);
		if vs.is_empty() {
			println!("replay: no violation reproduced");
			std::process::exit(0);
		}
		for x in &vs {
			println!(
				"REPRODUCED op={} features={:?}\n  observed: {}\n  expected: {}",
				x.op, x.features, x.observed, x.expected
			);
		}
		println!("VIOLATION property={} replay={}", prop.id, args[3]);
		std::process::exit(1);
	}

	let tier = match args.get(2).map(|s| s.as_str()).or(std::env::var("VERIF_TIER").ok().as_deref().map(|s| if s == "thorough" { "thorough" } else { "quick" })) {
		Some("thorough") => Tier::Thorough,
		Some("quick") | None => Tier::Quick,
		_ => usage(),
	};
	let wall = match tier {
		Tier::Quick => Duration::from_secs(std::env::var("VERIF_WALL_S").ok().and_then(|s| s.parse().ok()).unwrap_or(150)),
		Tier::Thorough => Duration::from_secs(std::env::var("VERIF_WALL_S").ok().and_then(|s| s.parse().ok()).unwrap_or(2400)),
	};
	let ctx = mk_ctx(tier, seed, threads, root.clone(), wall);

	let run_pass = || match engine::guard(|| (prop.run)(&ctx)) {
		engine::Guard::Ok(r) => r,
		engine::Guard::Panic(m) => {
			eprintln!("MACHINERY-ERROR: explorer for {} panicked outside a guarded call: {m}", prop.id);
			std::process::exit(2);
		}
	};
	let mut report = run_pass();
	// wide passes: the IRI half of the same driver with the non-ASCII representative of every
	// domain replaced by a 3-byte / 4-byte character (see model::domains::WIDE_VARIANTS)
	let mut wide_done = Vec::new();
	for w in wide_plan(prop.id, tier) {
		model::domains::set_wide(w);
		fam::Family::set_iri_only(true);
		let r = run_pass();
		model::domains::set_wide(0);
		fam::Family::set_iri_only(false);
		let name = format!("U+{:04X}", model::domains::WIDE_VARIANTS[w as usize].chars().next().unwrap() as u32);
		// cases without a non-ASCII character repeat cases of the first pass: they count as
		// evaluations, never as distinct cases, states or transitions
		report.count(&format!("wide_pass_{name}_evaluations"), r.evaluations);
		report.count(&format!("wide_pass_{name}_states"), r.states);
		report.evaluations += r.evaluations;
		report.exhaustive &= r.exhaustive;
		report.caps_hit.extend(r.caps_hit.into_iter().map(|c| format!("[wide pass {name}] {c}")));
		for (k, b) in r.buckets {
			let e = report.buckets.entry(k).or_default();
			e.count += b.count;
			for x in b.examples {
				if e.examples.len() < 3 {
					e.examples.push(x);
				}
			}
		}
		wide_done.push(name);
	}
	if !wide_done.is_empty() {
		report.info.insert("wide_passes".into(), serde_json::json!(wide_done));
		report.rule.push_str("; WIDE PASSES: the IRI half of the whole domain again with its non-ASCII representative (2-byte U+00E9) replaced by a 3-byte (U+D7FF) and/or 4-byte (U+10000) character, listed under wide_passes");
	}
	history_pass(&ctx, prop, &mut report);
	let code = finish(&ctx, prop, report);
	std::process::exit(code);
}

/// Replays a case; an input that carries `after` (a list of {check, input}) is replayed in a
/// fresh thread after those cases, in that order (their own verdicts are discarded).
fn replay_with_history(prop: &props::Prop, ctx: &Ctx, check: &str, input: &Value) -> Vec<Violation> {
	// always in a fresh thread: nothing a previous replay left in thread-local state of the subject
	// may decide this one
	let after = input["after"].as_array().cloned().unwrap_or_default();
	let mut plain = input.clone();
	if let Some(o) = plain.as_object_mut() {
		o.remove("after");
	}
	std::thread::scope(|s| {
		s.spawn(|| {
			for a in &after {
				let _ = engine::guard(|| (prop.replay)(ctx, a["check"].as_str().unwrap_or(""), &a["input"]));
			}
			let mut vs = (prop.replay)(ctx, check, &plain);
			if !after.is_empty() {
				for v in &mut vs {
					v.input["after"] = Value::Array(after.clone());
				}
			}
			vs
		})
		.join()
		.unwrap_or_default()
	})
}

/// Call histories of depth 2 over a small domain of cases whose subject is a pure function of its
/// input: for every ordered pair (x, y), in a fresh thread, the case of x runs first and then the
/// case of y is judged exactly as in the sweep. A subject that keeps state between calls (a cache,
/// a remembered offset) shows as a violation of y that names x as its history.
fn history_pass(ctx: &Ctx, prop: &props::Prop, report: &mut Report) {
	let dom = props::history_domain(prop.id, ctx);
	if dom.is_empty() {
		return;
	}
	let n = dom.len();
	let r = engine::run_shards(ctx, n, |xi| {
		let mut r = Report::new();
		let (xc, x) = &dom[xi];
		for (yc, y) in &dom {
			let mut input = y.clone();
			input["after"] = serde_json::json!([{"check": xc, "input": x}]);
			for v in replay_with_history(prop, ctx, yc, &input) {
				r.violate(v);
			}
			r.evaluations += 1;
		}
		r
	});
	report.count("history_pairs", (n * n) as u64);
	report.evaluations += r.evaluations;
	report.transitions += r.evaluations;
	for (k, b) in r.buckets {
		let e = report.buckets.entry(format!("{k}|after")).or_default();
		e.count += b.count;
		for x in b.examples {
			if e.examples.len() < 3 {
				e.examples.push(x);
			}
		}
	}
	report.rule.push_str("; CALL HISTORIES: all ordered pairs (x, y) of a sub-domain (counter history_pairs), y judged in a fresh thread right after x");
}

/// Which wide passes a property runs in which tier (0 = none). Properties whose subject is a
/// hand-written byte scanner or offset arithmetic get the 4-byte pass in the quick tier and both in
/// the thorough tier.
fn wide_plan(id: &str, tier: Tier) -> Vec<u8> {
	let scanners = ["C02", "C03", "C04", "C05", "C06", "C09", "C10", "C11", "C12", "C15", "C16", "C20"];
	if !scanners.contains(&id) {
		return vec![];
	}
	match tier {
		Tier::Quick => vec![2],
		Tier::Thorough => vec![1, 2],
	}
}

fn mk_ctx(tier: Tier, seed: u64, threads: usize, root: PathBuf, wall: Duration) -> Ctx {
	let start = Instant::now();
	Ctx { tier, seed, threads, start, deadline: start + wall, root }
}

/// Known-finding entry: a conjunction of equalities on check, op and features.
struct Known {
	property: String,
	status: String,
	what: String,
	check: Option<String>,
	op: Option<String>,
	features: BTreeMap<String, String>,
}

fn load_known(root: &std::path::Path) -> Result<Vec<Known>, String> {
	let p = root.join("known_findings.json");
	let text = match std::fs::read_to_string(&p) {
		Ok(t) => t,
		Err(_) => return Ok(vec![]),
	};
	let v: Value = serde_json::from_str(&text).map_err(|e| format!("known_findings.json: {e}"))?;
	let mut out = Vec::new();
	for e in v["findings"].as_array().cloned().unwrap_or_default() {
		let m = &e["match"];
		let mut features = BTreeMap::new();
		if let Some(f) = m["features"].as_object() {
			for (k, val) in f {
				features.insert(k.clone(), val.as_str().map(|s| s.to_string()).unwrap_or_else(|| val.to_string()));
			}
		}
		out.push(Known {
			property: e["property"].as_str().unwrap_or("").to_string(),
			status: e["status"].as_str().unwrap_or("").to_string(),
			what: e["what"].as_str().unwrap_or("").to_string(),
			check: m["check"].as_str().map(|s| s.to_string()),
			op: m["op"].as_str().map(|s| s.to_string()),
			features,
		});
	}
	Ok(out)
}

fn known_matches(k: &Known, v: &Violation) -> bool {
	if k.status != "known" || k.property != v.property {
		return false;
	}
	if let Some(c) = &k.check {
		if c != &v.check {
			return false;
		}
	}
	if let Some(o) = &k.op {
		if o != &v.op {
			return false;
		}
	}
	k.features.iter().all(|(f, val)| v.features.get(f) == Some(val))
}

fn finish(ctx: &Ctx, prop: &props::Prop, mut report: Report) -> i32 {
	let known = match load_known(&ctx.root) {
		Ok(k) => k,
		Err(e) => {
			eprintln!("MACHINERY-ERROR: {e}");
			return 2;
		}
	};
	let mut new_violations: Vec<(Violation, u64)> = Vec::new();
	let mut known_hits: BTreeMap<usize, (u64, String)> = BTreeMap::new();
	for (_sig, b) in &report.buckets {
		let ex = &b.examples[0];
		match known.iter().position(|k| known_matches(k, ex)) {
			Some(i) => {
				let e = known_hits.entry(i).or_insert((0, format!("{}", ex.input)));
				e.0 += b.count;
			}
			None => new_violations.push((ex.clone(), b.count)),
		}
	}
	// Determinism gate (O5): re-execute every new violation twice in isolation.
	let mut machinery_error = false;
	let mut not_replayable = 0u64;
	let mut confirmed: Vec<(Violation, u64)> = Vec::new();
	for (v, n) in new_violations {
		let r1 = replay_with_history(prop, ctx, &v.check, &v.input);
		let r2 = replay_with_history(prop, ctx, &v.check, &v.input);
		let s1: Vec<String> = r1.iter().map(|x| format!("{}|{}", x.signature(), x.observed)).collect();
		let s2: Vec<String> = r2.iter().map(|x| format!("{}|{}", x.signature(), x.observed)).collect();
		let want = format!("{}|{}", v.signature(), v.observed);
		if s1 == s2 && !s1.contains(&want) {
			// seen in the sweep, twice not seen alone: the verdict depends on what ran before it in
			// the same thread (hidden state in the subject). It cannot be replayed from its input, so
			// it is never a verdict by itself; it only matters when nothing replayable was found.
			eprintln!("NOT-REPLAYABLE: {} input={} was seen in the sweep but not when replayed alone", v.signature(), v.input);
			not_replayable += 1;
		} else if s1 != s2 {
			eprintln!(
				"MACHINERY-ERROR: violation did not replay deterministically: {} input={} (first: {:?}, second: {:?})",
				v.signature(),
				v.input,
				s1,
				s2
			);
			machinery_error = true;
		} else {
			confirmed.push((v, n));
		}
	}
	if not_replayable > 0 && confirmed.is_empty() {
		eprintln!("MACHINERY-ERROR: {not_replayable} violation signature(s) of the sweep do not replay from their input and no replayable violation was found");
		machinery_error = true;
	}

	// replay files
	let dir = ctx.root.join("replays").join(prop.id);
	let mut lines: Vec<String> = Vec::new();
	if !confirmed.is_empty() {
		let _ = std::fs::create_dir_all(&dir);
	}
	for (v, n) in &confirmed {
		let name = format!("{:016x}.json", engine::fnv(format!("{}{}", v.signature(), v.input).as_bytes()));
		let path = dir.join(name);
		let mut j = v.to_json();
		j["cases_with_this_signature"] = json!(n);
		let _ = std::fs::write(&path, serde_json::to_string_pretty(&j).unwrap());
		lines.push(format!("VIOLATION property={} replay={}", prop.id, path.display()));
		eprintln!(
			"violation: {} ({} cases)\n  input: {}\n  observed: {}\n  expected: {}",
			v.signature(),
			n,
			v.input,
			v.observed,
			v.expected
		);
	}
	for (i, (n, eg)) in &known_hits {
		println!("KNOWN-FINDING: property={} {} ({} cases, e.g. {})", prop.id, known[*i].what, n, eg);
	}

	// evidence
	let wall = engine::elapsed_s(ctx);
	let mut cov = Map::new();
	cov.insert("evaluations".into(), json!(report.evaluations));
	cov.insert("distinct_nontrivial".into(), json!(report.distinct_nontrivial));
	cov.insert("rule".into(), json!(report.rule));
	if report.samples.is_empty() {
		report.samples.push(json!("<no sample recorded>"));
	}
	cov.insert("samples".into(), Value::Array(report.samples.clone()));
	cov.insert("states".into(), json!(report.states.max(1)));
	cov.insert("transitions".into(), json!(report.transitions.max(1)));
	cov.insert("traces_validated_against_impl".into(), json!(report.traces));
	cov.insert("exhaustive".into(), json!(report.exhaustive));
	cov.insert("caps_hit".into(), json!(report.caps_hit));
	cov.insert("counters".into(), json!(report.counters));
	for (k, v) in &report.info {
		cov.insert(k.clone(), v.clone());
	}
	cov.insert(
		"violation_signatures".into(),
		json!(report.buckets.iter().map(|(k, b)| json!({"signature": k, "cases": b.count})).collect::<Vec<_>>()),
	);
	cov.insert("known_findings_matched".into(), json!(known_hits.len()));
	let ev = json!({
		"property_id": prop.id,
		"tier": ctx.tier.name(),
		"seed": ctx.seed,
		"level": "model_checking",
		"coverage": Value::Object(cov),
		"assumptions": report.assumptions,
		"wall_s": wall,
		"violations": confirmed.iter().map(|(_, n)| *n).sum::<u64>() as i64,
	});
	let evdir = ctx.root.join("evidence");
	let _ = std::fs::create_dir_all(&evdir);
	let evpath = evdir.join(format!("{}.json", prop.id));
	let tmp = evdir.join(format!(".{}.json.tmp", prop.id));
	if let Err(e) = std::fs::write(&tmp, serde_json::to_string_pretty(&ev).unwrap()).and_then(|_| std::fs::rename(&tmp, &evpath)) {
		eprintln!("MACHINERY-ERROR: cannot write evidence: {e}");
		return 2;
	}
	// a compact per-tier record next to it (the file above is overwritten by the other tier)
	{
		let mut small = ev.clone();
		if let Some(c) = small.get_mut("coverage").and_then(|c| c.as_object_mut()) {
			if let Some(sm) = c.get_mut("samples").and_then(|s| s.as_array_mut()) {
				sm.truncate(3);
			}
		}
		let rdir = evdir.join("runs");
		let _ = std::fs::create_dir_all(&rdir);
		let _ = std::fs::write(rdir.join(format!("{}.{}.json", prop.id, ctx.tier.name())), serde_json::to_string_pretty(&small).unwrap());
	}
	// vacuity guard
	if report.evaluations == 0 || report.distinct_nontrivial < 2 {
		eprintln!("MACHINERY-ERROR: vacuous run (evaluations={}, distinct_nontrivial={})", report.evaluations, report.distinct_nontrivial);
		return 2;
	}
	println!(
		"{} {}: evaluations={} distinct_nontrivial={} states={} transitions={} traces={} exhaustive={} violations={} known={} wall={:.1}s",
		prop.id,
		ctx.tier.name(),
		report.evaluations,
		report.distinct_nontrivial,
		report.states,
		report.transitions,
		report.traces,
		report.exhaustive,
		confirmed.len(),
		known_hits.len(),
		wall
	);
	let _ = std::io::stdout().flush();
	if machinery_error {
		return 2;
	}
	if !lines.is_empty() {
		for l in lines {
			println!("{l}");
		}
		return 1;
	}
	0
}
