//! Path text <-> (absolute, segment list); dot-segment normalisation; renderings.
//! Written from the property statements / RFC 3986 section 5.2.4, never from the code under test.

pub type Seg = Vec<u8>;

#[derive(Clone, Debug, PartialEq, Eq, Hash)]
pub struct PathList {
	pub abs: bool,
	pub segs: Vec<Seg>,
}

/// The '/'-separated pieces of the text after the optional leading '/'. A path with nothing
/// after the optional leading '/' has no segments.
pub fn split(text: &[u8]) -> PathList {
	let abs = text.first() == Some(&b'/');
	let rest = if abs { &text[1..] } else { text };
	let segs = if rest.is_empty() {
		Vec::new()
	} else {
		rest.split(|c| *c == b'/').map(|s| s.to_vec()).collect()
	};
	PathList { abs, segs }
}

pub fn join(segs: &[Seg]) -> Vec<u8> {
	let mut out = Vec::new();
	for (i, s) in segs.iter().enumerate() {
		if i > 0 {
			out.push(b'/');
		}
		out.extend_from_slice(s);
	}
	out
}

/// plain rendering: ('/' if abs) + join
pub fn plain(abs: bool, segs: &[Seg]) -> Vec<u8> {
	let mut out = Vec::new();
	if abs {
		out.push(b'/');
	}
	out.extend(join(segs));
	out
}

/// Is the plain rendering faithful, i.e. does it split back to (abs, segs)?
pub fn plain_is_faithful(abs: bool, segs: &[Seg]) -> bool {
	let t = plain(abs, segs);
	let back = split(&t);
	back.abs == abs && back.segs == segs
}

/// A '.' shield is legal only in front of a first segment that is empty or contains ':'.
pub fn shield_allowed(segs: &[Seg]) -> bool {
	match segs.first() {
		Some(s) => s.is_empty() || s.contains(&b':'),
		None => false,
	}
}

pub fn shielded(abs: bool, segs: &[Seg]) -> Vec<u8> {
	let mut v: Vec<Seg> = vec![b".".to_vec()];
	v.extend(segs.iter().cloned());
	plain(abs, &v)
}

/// Accept an observed path text as a rendering of the expected (abs, segs) list:
///  * a faithful plain rendering, or
///  * a shielded rendering where the shield is legal, or
///  * (lenient only) expected == [""] and the text is the bare root/empty path: "root + one
///    empty segment" has no plain text of its own.
pub fn accepts_opt(text: &[u8], abs: bool, segs: &[Seg], lenient_single_empty: bool) -> bool {
	let got = split(text);
	if got.abs != abs {
		return false;
	}
	if got.segs == segs {
		return true;
	}
	if shield_allowed(segs) && got.segs.len() == segs.len() + 1 && got.segs[0] == b"." && got.segs[1..] == *segs {
		return true;
	}
	if lenient_single_empty && segs.len() == 1 && segs[0].is_empty() && got.segs.is_empty() {
		return true;
	}
	false
}

pub fn accepts(text: &[u8], abs: bool, segs: &[Seg]) -> bool {
	accepts_opt(text, abs, segs, true)
}

pub fn accepts_strict(text: &[u8], abs: bool, segs: &[Seg]) -> bool {
	accepts_opt(text, abs, segs, false)
}

/// The stack walk of the normalisation statement: scan left to right, drop ".", let ".."
/// remove the previous segment - or be kept when the path is relative and nothing (or only
/// kept "..") is left to remove (Errata 4547), or be dropped at the root of an absolute path.
pub fn normalize_segments(abs: bool, segs: &[Seg]) -> Vec<Seg> {
	let mut st: Vec<Seg> = Vec::new();
	for s in segs {
		if s == b"." {
			continue;
		} else if s == b".." {
			match st.last() {
				Some(l) if l != b".." => {
					st.pop();
				}
				Some(_) => st.push(s.clone()), // previous is a kept ".." (only possible when relative)
				None => {
					if !abs {
						st.push(s.clone())
					}
				}
			}
		} else {
			st.push(s.clone());
		}
	}
	st
}

/// RFC 3986 5.2.4 rendering of a normalised sequence: join, leading '/' if absolute, and the
/// trailing '/' left by a final dot segment. When the sequence is empty nothing but the root
/// (absolute) or the empty text (relative) remains.
/// Returns the *segment list* of the rendering (so that a trailing '/' is an extra "" segment).
pub fn remove_dot_segments_list(abs: bool, segs: &[Seg]) -> Vec<Seg> {
	let mut out = normalize_segments(abs, segs);
	let last_is_dot = matches!(segs.last(), Some(s) if s == b"." || s == b"..");
	if last_is_dot && !out.is_empty() {
		// a final dot segment leaves a trailing '/' (pinned by the repository's own test:
		// normalized("a/../..") == "../")
		out.push(Vec::new());
	}
	out
}

/// Literal transcription of RFC 3986 section 5.2.4 (input buffer / output buffer, steps
/// 2A-2E), used to cross-check `remove_dot_segments_list` on absolute paths.
pub fn rfc_5_2_4(input: &[u8]) -> Vec<u8> {
	let mut inp: Vec<u8> = input.to_vec();
	let mut out: Vec<u8> = Vec::new();
	while !inp.is_empty() {
		if inp.starts_with(b"../") {
			inp.drain(..3); // 2A
		} else if inp.starts_with(b"./") {
			inp.drain(..2); // 2A
		} else if inp.starts_with(b"/./") {
			inp.drain(..2); // 2B: replace "/./" by "/"
		} else if inp == b"/." {
			inp = b"/".to_vec(); // 2B
		} else if inp.starts_with(b"/../") {
			inp.drain(..3); // 2C: replace "/../" by "/"
			remove_last_segment(&mut out);
		} else if inp == b"/.." {
			inp = b"/".to_vec(); // 2C
			remove_last_segment(&mut out);
		} else if inp == b"." || inp == b".." {
			inp.clear(); // 2D
		} else {
			// 2E: move the first path segment (including the initial "/" if any, up to but not
			// including the next "/") to the output buffer
			let start = if inp[0] == b'/' { 1 } else { 0 };
			let end = inp[start..]
				.iter()
				.position(|c| *c == b'/')
				.map(|p| p + start)
				.unwrap_or(inp.len());
			out.extend_from_slice(&inp[..end]);
			inp.drain(..end);
		}
	}
	out
}

fn remove_last_segment(out: &mut Vec<u8>) {
	// "removing the last segment and its preceding "/" (if any) from the output buffer"
	match out.iter().rposition(|c| *c == b'/') {
		Some(p) => out.truncate(p),
		None => out.clear(),
	}
}

/// Features of a path used in known-finding signatures.
pub fn has_dot_segment(segs: &[Seg]) -> bool {
	segs.iter().any(|s| s == b"." || s == b"..")
}
pub fn ends_in_dot_segment(segs: &[Seg]) -> bool {
	matches!(segs.last(), Some(s) if s == b"." || s == b"..")
}
pub fn has_empty_segment(segs: &[Seg]) -> bool {
	segs.iter().any(|s| s.is_empty())
}
