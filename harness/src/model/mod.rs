pub mod abnf;
pub mod dfa;
pub mod domains;
pub mod equiv;
pub mod pathlist;
pub mod pathops;
pub mod resolve;
pub mod selftest;
pub mod syntax;
pub mod wmethod;

use crate::fam::{Family, Kind};
use std::collections::BTreeMap;
use std::path::Path;
use std::sync::OnceLock;

/// ABNF production of each validated type.
pub fn rule_of(f: Family, k: Kind) -> &'static str {
	match (f, k) {
		(_, Kind::Scheme) => "scheme",
		(_, Kind::Port) => "port",
		(Family::Uri, Kind::Ri) => "URI",
		(Family::Uri, Kind::RiRef) => "URI-reference",
		(Family::Uri, Kind::Authority) => "authority",
		(Family::Uri, Kind::UserInfo) => "userinfo",
		(Family::Uri, Kind::Host) => "host",
		(Family::Uri, Kind::Path) => "path",
		(Family::Uri, Kind::Segment) => "segment",
		(Family::Uri, Kind::Query) => "query",
		(Family::Uri, Kind::Fragment) => "fragment",
		(Family::Iri, Kind::Ri) => "IRI",
		(Family::Iri, Kind::RiRef) => "IRI-reference",
		(Family::Iri, Kind::Authority) => "iauthority",
		(Family::Iri, Kind::UserInfo) => "iuserinfo",
		(Family::Iri, Kind::Host) => "ihost",
		(Family::Iri, Kind::Path) => "ipath",
		(Family::Iri, Kind::Segment) => "isegment",
		(Family::Iri, Kind::Query) => "iquery",
		(Family::Iri, Kind::Fragment) => "ifragment",
	}
}

pub struct Spec {
	pub grammar: abnf::Grammar,
	pub alphabet: dfa::Alphabet,
}

pub const SURROGATES: (u32, u32) = (0xD800, 0xDFFF);

pub fn load_spec(root: &Path, f: Family) -> Spec {
	let (file, max, excl): (&str, u32, Vec<(u32, u32)>) = match f {
		Family::Uri => ("spec/rfc3986.abnf", 255, vec![]),
		Family::Iri => ("spec/rfc3987.abnf", 0x10FFFF, vec![SURROGATES]),
	};
	let text = std::fs::read_to_string(root.join(file)).unwrap_or_else(|e| panic!("cannot read {file}: {e}"));
	let grammar = abnf::parse(&text).unwrap_or_else(|e| panic!("{file}: {e}"));
	let alphabet = dfa::Alphabet::new(&grammar, max, &excl);
	assert!(alphabet.refines(&grammar), "alphabet partition does not refine the terminals");
	Spec { grammar, alphabet }
}

/// Reference DFAs, built once per process on demand.
pub struct Refs {
	root: std::path::PathBuf,
	specs: [OnceLock<Spec>; 2],
	dfas: std::sync::Mutex<BTreeMap<(Family, Kind), std::sync::Arc<dfa::Dfa>>>,
}

static GLOBAL_REFS: OnceLock<Refs> = OnceLock::new();

impl Refs {
	/// Process-wide instance (the DFAs are built once, on demand).
	pub fn new(root: &Path) -> &'static Refs {
		GLOBAL_REFS.get_or_init(|| Refs { root: root.to_path_buf(), specs: [OnceLock::new(), OnceLock::new()], dfas: Default::default() })
	}
	pub fn spec(&self, f: Family) -> &Spec {
		let i = match f {
			Family::Uri => 0,
			Family::Iri => 1,
		};
		self.specs[i].get_or_init(|| load_spec(&self.root, f))
	}
	pub fn dfa(&self, f: Family, k: Kind) -> std::sync::Arc<dfa::Dfa> {
		// Scheme and Port are byte types in both families; use the URI spec for them
		let f = if matches!(k, Kind::Scheme | Kind::Port) { Family::Uri } else { f };
		if let Some(d) = self.dfas.lock().unwrap().get(&(f, k)) {
			return d.clone();
		}
		let sp = self.spec(f);
		let d = std::sync::Arc::new(dfa::Dfa::from_rule(&sp.grammar, &sp.alphabet, rule_of(f, k)));
		self.dfas.lock().unwrap().insert((f, k), d.clone());
		d
	}
	/// Reference validity of raw bytes for a type: URI family = bytes are the symbols;
	/// IRI family = well-formed UTF-8 whose scalar values are accepted.
	pub fn valid(&self, f: Family, k: Kind, b: &[u8]) -> bool {
		let d = self.dfa(f, k);
		ref_valid(&d, f, k, b)
	}
}

pub fn ref_valid(d: &dfa::Dfa, f: Family, k: Kind, b: &[u8]) -> bool {
	let bytes_ty = f == Family::Uri || matches!(k, Kind::Scheme | Kind::Port);
	if bytes_ty {
		d.accepts_bytes_as_syms(b)
	} else {
		match std::str::from_utf8(b) {
			Ok(s) => d.accepts_str(s),
			Err(_) => false,
		}
	}
}

/// The eleven reference DFAs of one family, for use inside case evaluators.
pub struct FamRefs {
	pub family: Family,
	dfas: Vec<std::sync::Arc<dfa::Dfa>>,
}

impl FamRefs {
	pub fn new(refs: &Refs, f: Family) -> Self {
		FamRefs { family: f, dfas: Kind::ALL.iter().map(|k| refs.dfa(f, *k)).collect() }
	}
	pub fn dfa(&self, k: Kind) -> &dfa::Dfa {
		&self.dfas[Kind::ALL.iter().position(|x| *x == k).unwrap()]
	}
	pub fn valid(&self, k: Kind, b: &[u8]) -> bool {
		ref_valid(self.dfa(k), self.family, k, b)
	}
}
