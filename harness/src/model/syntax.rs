//! Reference decomposition per RFC 3986 Appendix B / section 3, written as plain splitting.
//! Never consults the library under test.

pub type B = Vec<u8>;

#[derive(Clone, Debug, PartialEq, Eq, Hash, Default)]
pub struct Parts {
	pub scheme: Option<B>,
	pub authority: Option<B>,
	pub path: B,
	pub query: Option<B>,
	pub fragment: Option<B>,
}

/// Offsets of the components inside the text (start, end).
#[derive(Clone, Debug, PartialEq, Eq, Default)]
pub struct Ranges {
	pub scheme: Option<(usize, usize)>,
	pub authority: Option<(usize, usize)>,
	pub path: (usize, usize),
	pub query: Option<(usize, usize)>,
	pub fragment: Option<(usize, usize)>,
}

/// RFC 3986 Appendix B: `^(([^:/?#]+):)?(//([^/?#]*))?([^?#]*)(\?([^#]*))?(#(.*))?`
/// (the regular expression is the normative disambiguation rule; on *valid* references it
/// coincides with the ABNF decomposition).
pub fn split_ranges(t: &[u8]) -> Ranges {
	let n = t.len();
	// fragment: after the first '#'
	let hash = t.iter().position(|c| *c == b'#');
	let body_end = hash.unwrap_or(n);
	let fragment = hash.map(|h| (h + 1, n));
	// query: after the first '?' before the fragment
	let qm = t[..body_end].iter().position(|c| *c == b'?');
	let hier_end = qm.unwrap_or(body_end);
	let query = qm.map(|q| (q + 1, body_end));
	// scheme: a non-empty run without ":/?#" followed by ':'
	let mut i = 0;
	let mut scheme = None;
	while i < hier_end {
		match t[i] {
			b':' => {
				if i > 0 {
					scheme = Some((0, i));
				}
				break;
			}
			b'/' => break,
			_ => i += 1,
		}
	}
	let mut pos = scheme.map(|(_, e)| e + 1).unwrap_or(0);
	// authority: "//" then up to the next '/' (or the end of the hierarchical part)
	let mut authority = None;
	if hier_end >= pos + 2 && t[pos] == b'/' && t[pos + 1] == b'/' {
		let a0 = pos + 2;
		let mut a1 = a0;
		while a1 < hier_end && t[a1] != b'/' {
			a1 += 1;
		}
		authority = Some((a0, a1));
		pos = a1;
	}
	Ranges {
		scheme,
		authority,
		path: (pos, hier_end),
		query,
		fragment,
	}
}

pub fn split(t: &[u8]) -> Parts {
	let r = split_ranges(t);
	let g = |o: Option<(usize, usize)>| o.map(|(a, b)| t[a..b].to_vec());
	Parts {
		scheme: g(r.scheme),
		authority: g(r.authority),
		path: t[r.path.0..r.path.1].to_vec(),
		query: g(r.query),
		fragment: g(r.fragment),
	}
}

/// RFC 3986 section 5.3 recomposition.
pub fn recompose(p: &Parts) -> B {
	let mut out = Vec::new();
	if let Some(s) = &p.scheme {
		out.extend_from_slice(s);
		out.push(b':');
	}
	if let Some(a) = &p.authority {
		out.extend_from_slice(b"//");
		out.extend_from_slice(a);
	}
	out.extend_from_slice(&p.path);
	if let Some(q) = &p.query {
		out.push(b'?');
		out.extend_from_slice(q);
	}
	if let Some(f) = &p.fragment {
		out.push(b'#');
		out.extend_from_slice(f);
	}
	out
}

#[derive(Clone, Debug, PartialEq, Eq, Hash, Default)]
pub struct AuthParts {
	pub userinfo: Option<B>,
	pub host: B,
	pub port: Option<B>,
}

#[derive(Clone, Copy, Debug, PartialEq, Eq)]
pub enum HostKind {
	Empty,
	IpLiteral,
	Other,
}

/// RFC 3986 section 3.2: `[ userinfo "@" ] host [ ":" port ]` on a *valid* authority.
/// userinfo cannot contain '@', so it is the text before the first '@'; if the rest starts
/// with '[' the host extends to the matching ']'; otherwise (reg-name / IPv4 cannot contain
/// ':') it extends to the first ':'; a port is what follows the ':' right after the host.
pub fn split_authority(a: &[u8]) -> AuthParts {
	let at = a.iter().position(|c| *c == b'@');
	let (userinfo, rest_start) = match at {
		Some(i) => (Some(a[..i].to_vec()), i + 1),
		None => (None, 0),
	};
	let rest = &a[rest_start..];
	let host_end = if rest.first() == Some(&b'[') {
		match rest.iter().position(|c| *c == b']') {
			Some(i) => i + 1,
			None => rest.len(),
		}
	} else {
		rest.iter().position(|c| *c == b':').unwrap_or(rest.len())
	};
	let host = rest[..host_end].to_vec();
	let port = if host_end < rest.len() && rest[host_end] == b':' {
		Some(rest[host_end + 1..].to_vec())
	} else {
		None
	};
	AuthParts {
		userinfo,
		host,
		port,
	}
}

pub fn host_kind(h: &[u8]) -> HostKind {
	if h.is_empty() {
		HostKind::Empty
	} else if h[0] == b'[' {
		HostKind::IpLiteral
	} else {
		HostKind::Other
	}
}

pub fn recompose_authority(p: &AuthParts) -> B {
	let mut out = Vec::new();
	if let Some(u) = &p.userinfo {
		out.extend_from_slice(u);
		out.push(b'@');
	}
	out.extend_from_slice(&p.host);
	if let Some(pt) = &p.port {
		out.push(b':');
		out.extend_from_slice(pt);
	}
	out
}

/// `ALPHA *( ALPHA / DIGIT / "+" / "-" / "." ) ":"` prefix test on a first segment
/// (what makes a relative path misreadable as scheme + rest).
pub fn first_segment_has_colon(path: &[u8]) -> bool {
	let first = path.split(|c| *c == b'/').next().unwrap_or(&[]);
	first.contains(&b':')
}
