//! Minimal ABNF (RFC 5234) reader for the RFC 3986 / RFC 3987 grammars transcribed under
//! /verif/spec, plus a direct derivation matcher on the rule AST (used to cross-check the DFA).

use std::collections::BTreeMap;

/// Inclusive range of symbols (bytes or Unicode scalar values).
pub type Range = (u32, u32);

#[derive(Clone, Debug)]
pub enum Node {
	Alt(Vec<Node>),
	Cat(Vec<Node>),
	/// min, max (None = unbounded)
	Rep(u32, Option<u32>, Box<Node>),
	/// one symbol out of a set of ranges
	Class(Vec<Range>),
	Ref(String),
}

#[derive(Clone, Debug, Default)]
pub struct Grammar {
	pub rules: BTreeMap<String, Node>,
}

fn core_rules() -> &'static str {
	// RFC 5234 Appendix B.1 (the ones the two grammars use)
	"ALPHA = %x41-5A / %x61-7A\nDIGIT = %x30-39\nHEXDIG = DIGIT / \"A\" / \"B\" / \"C\" / \"D\" / \"E\" / \"F\"\n"
}

/// Strip a `;` comment, but only outside of a quoted string (`";"` is a sub-delim literal).
fn strip_comment(line: &str) -> &str {
	let mut in_q = false;
	let mut in_angle = false;
	for (i, c) in line.char_indices() {
		match c {
			'"' if !in_angle => in_q = !in_q,
			'<' if !in_q => in_angle = true,
			'>' if !in_q => in_angle = false,
			';' if !in_q && !in_angle => return &line[..i],
			_ => {}
		}
	}
	line
}

pub fn parse(text: &str) -> Result<Grammar, String> {
	let mut full = String::new();
	full.push_str(core_rules());
	full.push_str(text);
	// join continuation lines
	let mut logical: Vec<String> = Vec::new();
	for raw in full.lines() {
		let line = strip_comment(raw);
		if line.trim().is_empty() {
			continue;
		}
		let starts_ws = line.starts_with(' ') || line.starts_with('\t');
		if starts_ws {
			match logical.last_mut() {
				Some(l) => {
					l.push(' ');
					l.push_str(line.trim());
				}
				None => return Err(format!("continuation without a rule: {line:?}")),
			}
		} else {
			logical.push(line.trim_end().to_string());
		}
	}
	let mut g = Grammar::default();
	for l in logical {
		let (name, rhs) = l.split_once('=').ok_or_else(|| format!("no '=' in rule: {l:?}"))?;
		let name = name.trim().to_string();
		if name.is_empty() || !name.chars().all(|c| c.is_ascii_alphanumeric() || c == '-') {
			return Err(format!("bad rule name {name:?}"));
		}
		let mut p = P { s: rhs.as_bytes(), i: 0 };
		let node = p.alternation()?;
		p.ws();
		if p.i != p.s.len() {
			return Err(format!("trailing input in rule {name}: {:?}", &rhs[p.i..]));
		}
		if g.rules.insert(name.to_ascii_lowercase(), node).is_some() {
			return Err(format!("duplicate rule {name}"));
		}
	}
	// all references must resolve
	for (n, node) in &g.rules {
		check_refs(&g, node).map_err(|e| format!("in rule {n}: {e}"))?;
	}
	Ok(g)
}

fn check_refs(g: &Grammar, n: &Node) -> Result<(), String> {
	match n {
		Node::Alt(v) | Node::Cat(v) => v.iter().try_for_each(|x| check_refs(g, x)),
		Node::Rep(_, _, b) => check_refs(g, b),
		Node::Class(_) => Ok(()),
		Node::Ref(r) => {
			if g.rules.contains_key(r) {
				Ok(())
			} else {
				Err(format!("undefined rule {r}"))
			}
		}
	}
}

struct P<'a> {
	s: &'a [u8],
	i: usize,
}

impl<'a> P<'a> {
	fn ws(&mut self) {
		while self.i < self.s.len() && (self.s[self.i] == b' ' || self.s[self.i] == b'\t') {
			self.i += 1;
		}
	}
	fn peek(&self) -> Option<u8> {
		self.s.get(self.i).copied()
	}
	fn alternation(&mut self) -> Result<Node, String> {
		let mut alts = vec![self.concatenation()?];
		loop {
			self.ws();
			if self.peek() == Some(b'/') {
				self.i += 1;
				alts.push(self.concatenation()?);
			} else {
				break;
			}
		}
		Ok(if alts.len() == 1 { alts.pop().unwrap() } else { Node::Alt(alts) })
	}
	fn concatenation(&mut self) -> Result<Node, String> {
		let mut items = Vec::new();
		loop {
			self.ws();
			match self.peek() {
				None | Some(b'/') | Some(b')') | Some(b']') => break,
				_ => items.push(self.repetition()?),
			}
		}
		if items.is_empty() {
			return Err("empty concatenation".into());
		}
		Ok(if items.len() == 1 { items.pop().unwrap() } else { Node::Cat(items) })
	}
	fn number(&mut self) -> Option<u32> {
		let st = self.i;
		while self.i < self.s.len() && self.s[self.i].is_ascii_digit() {
			self.i += 1;
		}
		if st == self.i {
			None
		} else {
			std::str::from_utf8(&self.s[st..self.i]).unwrap().parse().ok()
		}
	}
	fn repetition(&mut self) -> Result<Node, String> {
		// [repeat] element ; repeat = 1*DIGIT / (*DIGIT "*" *DIGIT)
		let a = self.number();
		let mut rep: Option<(u32, Option<u32>)> = None;
		if self.peek() == Some(b'*') {
			self.i += 1;
			let b = self.number();
			rep = Some((a.unwrap_or(0), b));
		} else if let Some(n) = a {
			rep = Some((n, Some(n)));
		}
		let e = self.element()?;
		Ok(match rep {
			None => e,
			Some((lo, hi)) => Node::Rep(lo, hi, Box::new(e)),
		})
	}
	fn element(&mut self) -> Result<Node, String> {
		match self.peek() {
			Some(b'(') => {
				self.i += 1;
				let n = self.alternation()?;
				self.ws();
				if self.peek() != Some(b')') {
					return Err("expected ')'".into());
				}
				self.i += 1;
				Ok(n)
			}
			Some(b'[') => {
				self.i += 1;
				let n = self.alternation()?;
				self.ws();
				if self.peek() != Some(b']') {
					return Err("expected ']'".into());
				}
				self.i += 1;
				Ok(Node::Rep(0, Some(1), Box::new(n)))
			}
			Some(b'"') => {
				self.i += 1;
				let st = self.i;
				while self.peek().map(|c| c != b'"').unwrap_or(false) {
					self.i += 1;
				}
				if self.peek() != Some(b'"') {
					return Err("unterminated string".into());
				}
				let lit = &self.s[st..self.i];
				self.i += 1;
				// ABNF strings are case-insensitive
				let mut cat = Vec::new();
				for c in lit {
					let mut cls = vec![(*c as u32, *c as u32)];
					if c.is_ascii_alphabetic() {
						let o = if c.is_ascii_uppercase() { c.to_ascii_lowercase() } else { c.to_ascii_uppercase() };
						cls.push((o as u32, o as u32));
					}
					cat.push(Node::Class(cls));
				}
				Ok(if cat.len() == 1 { cat.pop().unwrap() } else { Node::Cat(cat) })
			}
			Some(b'%') => {
				self.i += 1;
				if self.peek() != Some(b'x') && self.peek() != Some(b'X') {
					return Err("only %x num-val supported".into());
				}
				self.i += 1;
				let a = self.hex()?;
				if self.peek() == Some(b'-') {
					self.i += 1;
					let b = self.hex()?;
					Ok(Node::Class(vec![(a, b)]))
				} else if self.peek() == Some(b'.') {
					let mut cat = vec![Node::Class(vec![(a, a)])];
					while self.peek() == Some(b'.') {
						self.i += 1;
						let x = self.hex()?;
						cat.push(Node::Class(vec![(x, x)]));
					}
					Ok(Node::Cat(cat))
				} else {
					Ok(Node::Class(vec![(a, a)]))
				}
			}
			Some(b'<') => {
				// prose-val; only used as `0<pchar>` (zero repetitions), so its content never matters
				while self.peek().map(|c| c != b'>').unwrap_or(false) {
					self.i += 1;
				}
				if self.peek() != Some(b'>') {
					return Err("unterminated prose".into());
				}
				self.i += 1;
				Ok(Node::Class(vec![]))
			}
			Some(c) if c.is_ascii_alphabetic() => {
				let st = self.i;
				while self.peek().map(|c| c.is_ascii_alphanumeric() || c == b'-').unwrap_or(false) {
					self.i += 1;
				}
				Ok(Node::Ref(std::str::from_utf8(&self.s[st..self.i]).unwrap().to_ascii_lowercase()))
			}
			other => Err(format!("unexpected {:?} at {}", other.map(|c| c as char), self.i)),
		}
	}
	fn hex(&mut self) -> Result<u32, String> {
		let st = self.i;
		while self.peek().map(|c| c.is_ascii_hexdigit()).unwrap_or(false) {
			self.i += 1;
		}
		if st == self.i {
			return Err("expected hex digits".into());
		}
		u32::from_str_radix(std::str::from_utf8(&self.s[st..self.i]).unwrap(), 16).map_err(|e| e.to_string())
	}
}

impl Grammar {
	/// All terminal range boundaries, for building the interval partition.
	pub fn collect_ranges(&self, out: &mut Vec<Range>) {
		fn go(n: &Node, out: &mut Vec<Range>) {
			match n {
				Node::Alt(v) | Node::Cat(v) => v.iter().for_each(|x| go(x, out)),
				Node::Rep(_, _, b) => go(b, out),
				Node::Class(c) => out.extend(c.iter().copied()),
				Node::Ref(_) => {}
			}
		}
		for n in self.rules.values() {
			go(n, out);
		}
	}

	/// Direct derivation matcher: the set of end positions reachable by matching `node`
	/// on `input` from `start`. Exponential in principle, fine for the short strings it is
	/// used on. Structurally unrelated to the NFA/DFA pipeline.
	pub fn ends(&self, node: &Node, input: &[u32], start: usize) -> Vec<usize> {
		match node {
			Node::Class(c) => {
				if start < input.len() && c.iter().any(|(a, b)| *a <= input[start] && input[start] <= *b) {
					vec![start + 1]
				} else {
					vec![]
				}
			}
			Node::Ref(r) => self.ends(&self.rules[r], input, start),
			Node::Alt(v) => {
				let mut out: Vec<usize> = Vec::new();
				for x in v {
					for e in self.ends(x, input, start) {
						if !out.contains(&e) {
							out.push(e);
						}
					}
				}
				out
			}
			Node::Cat(v) => {
				let mut cur = vec![start];
				for x in v {
					let mut next: Vec<usize> = Vec::new();
					for s in &cur {
						for e in self.ends(x, input, *s) {
							if !next.contains(&e) {
								next.push(e);
							}
						}
					}
					cur = next;
					if cur.is_empty() {
						break;
					}
				}
				cur
			}
			Node::Rep(lo, hi, b) => {
				let mut out: Vec<usize> = Vec::new();
				let mut cur = vec![start];
				let mut k = 0u32;
				if *lo == 0 {
					out.push(start);
				}
				loop {
					if let Some(h) = hi {
						if k >= *h {
							break;
						}
					}
					let mut next: Vec<usize> = Vec::new();
					for s in &cur {
						for e in self.ends(b, input, *s) {
							// an iteration that consumes nothing cannot lead anywhere new
							if e != *s && !next.contains(&e) {
								next.push(e);
							}
						}
					}
					k += 1;
					if next.is_empty() {
						break;
					}
					if k >= *lo {
						for e in &next {
							if !out.contains(e) {
								out.push(*e);
							}
						}
					}
					cur = next;
				}
				// lo > 0 with a nullable body: iterations may be empty
				if *lo > 0 && !out.contains(&start) && self.nullable(b) {
					out.push(start);
				}
				out
			}
		}
	}

	pub fn nullable(&self, n: &Node) -> bool {
		match n {
			Node::Class(_) => false,
			Node::Ref(r) => self.nullable(&self.rules[r]),
			Node::Alt(v) => v.iter().any(|x| self.nullable(x)),
			Node::Cat(v) => v.iter().all(|x| self.nullable(x)),
			Node::Rep(lo, _, b) => *lo == 0 || self.nullable(b),
		}
	}

	pub fn matches(&self, rule: &str, input: &[u32]) -> bool {
		let n = &self.rules[&rule.to_ascii_lowercase()];
		self.ends(n, input, 0).contains(&input.len())
	}
}
