//! Reference equivalence (C07): equality of a canonical tuple built from the RFC decomposition,
//! dot-segment normalisation and percent-decoding to OCTETS. Being equality of a canonical
//! form it is an equivalence relation by construction.

use super::{pathlist, syntax};

/// Percent-decoding to octets: `%XX` -> byte, everything else its own bytes.
pub fn pct_octets(b: &[u8]) -> Vec<u8> {
	let mut out = Vec::with_capacity(b.len());
	let mut i = 0;
	while i < b.len() {
		if b[i] == b'%' && i + 2 < b.len() {
			let h = |c: u8| -> Option<u8> {
				match c {
					b'0'..=b'9' => Some(c - b'0'),
					b'a'..=b'f' => Some(c - b'a' + 10),
					b'A'..=b'F' => Some(c - b'A' + 10),
					_ => None,
				}
			};
			if let (Some(x), Some(y)) = (h(b[i + 1]), h(b[i + 2])) {
				out.push(x << 4 | y);
				i += 3;
				continue;
			}
		}
		out.push(b[i]);
		i += 1;
	}
	out
}

pub fn octets_wellformed(b: &[u8]) -> bool {
	std::str::from_utf8(&pct_octets(b)).is_ok()
}

/// Does the text contain a percent-encoded overlong / otherwise ill-formed sequence that a
/// lenient UTF-8 decoder could map to a character?
pub fn has_pct(b: &[u8]) -> bool {
	b.contains(&b'%')
}

#[derive(Clone, Debug, PartialEq, Eq, Hash, PartialOrd, Ord)]
pub struct CanonAuthority {
	pub userinfo: Option<Vec<u8>>,
	pub host: Vec<u8>,
	/// literal
	pub port: Option<Vec<u8>>,
}

#[derive(Clone, Debug, PartialEq, Eq, Hash, PartialOrd, Ord)]
pub struct CanonPath {
	pub abs: bool,
	pub segs: Vec<Vec<u8>>,
}

#[derive(Clone, Debug, PartialEq, Eq, Hash, PartialOrd, Ord)]
pub struct CanonRef {
	/// literal
	pub scheme: Option<Vec<u8>>,
	pub authority: Option<CanonAuthority>,
	pub path: CanonPath,
	pub query: Option<Vec<u8>>,
	pub fragment: Option<Vec<u8>>,
}

pub fn canon_authority(a: &[u8]) -> CanonAuthority {
	let p = syntax::split_authority(a);
	CanonAuthority { userinfo: p.userinfo.map(|u| pct_octets(&u)), host: pct_octets(&p.host), port: p.port }
}

pub fn canon_path(p: &[u8]) -> CanonPath {
	let m = pathlist::split(p);
	let n = pathlist::normalize_segments(m.abs, &m.segs);
	CanonPath { abs: m.abs, segs: n.iter().map(|s| pct_octets(s)).collect() }
}

pub fn canon_ref(t: &[u8]) -> CanonRef {
	canon_parts(syntax::split(t))
}

pub fn canon_parts(p: syntax::Parts) -> CanonRef {
	CanonRef {
		scheme: p.scheme,
		authority: p.authority.map(|a| canon_authority(&a)),
		path: canon_path(&p.path),
		query: p.query.map(|q| pct_octets(&q)),
		fragment: p.fragment.map(|f| pct_octets(&f)),
	}
}

/// Does any percent-decoded part of the value contain ill-formed UTF-8?
pub fn ref_wellformed(t: &[u8]) -> bool {
	let c = canon_ref(t);
	let ok = |b: &Vec<u8>| std::str::from_utf8(b).is_ok();
	c.authority.as_ref().map(|a| a.userinfo.as_ref().map(ok).unwrap_or(true) && ok(&a.host)).unwrap_or(true)
		&& c.path.segs.iter().all(ok)
		&& c.query.as_ref().map(ok).unwrap_or(true)
		&& c.fragment.as_ref().map(ok).unwrap_or(true)
}
