//! ABNF rule -> Thompson NFA -> subset construction -> Moore minimisation, over an interval
//! partition of the symbol space. Shares nothing with `static-regular-grammar`.

use super::abnf::{Grammar, Node, Range};
use std::collections::{BTreeMap, BTreeSet, HashMap, VecDeque};

/// Partition of the symbol space 0..=max into maximal intervals on which every terminal of
/// the grammar is constant. `excluded` intervals (surrogates) are not symbols at all.
#[derive(Clone, Debug)]
pub struct Alphabet {
	/// sorted, disjoint, covering 0..=max except the excluded gap(s)
	pub intervals: Vec<Range>,
	pub max: u32,
}

impl Alphabet {
	pub fn new(g: &Grammar, max: u32, excluded: &[Range]) -> Self {
		let mut rs = Vec::new();
		g.collect_ranges(&mut rs);
		let mut cuts: BTreeSet<u32> = BTreeSet::new(); // interval starts
		cuts.insert(0);
		for (a, b) in rs.iter().chain(excluded.iter()) {
			cuts.insert(*a);
			if *b < max {
				cuts.insert(*b + 1);
			}
		}
		let cuts: Vec<u32> = cuts.into_iter().filter(|c| *c <= max).collect();
		let mut intervals = Vec::new();
		for (i, c) in cuts.iter().enumerate() {
			let end = if i + 1 < cuts.len() { cuts[i + 1] - 1 } else { max };
			let is_excl = excluded.iter().any(|(a, b)| *a <= *c && end <= *b);
			if !is_excl {
				intervals.push((*c, end));
			}
		}
		Alphabet { intervals, max }
	}

	/// index of the interval containing the symbol (None for excluded symbols)
	pub fn class_of(&self, sym: u32) -> Option<usize> {
		let i = self.intervals.partition_point(|(_, b)| *b < sym);
		if i < self.intervals.len() && self.intervals[i].0 <= sym {
			Some(i)
		} else {
			None
		}
	}

	/// every terminal range must be a union of intervals (refinement check)
	pub fn refines(&self, g: &Grammar) -> bool {
		let mut rs = Vec::new();
		g.collect_ranges(&mut rs);
		rs.iter().all(|(a, b)| {
			self.intervals
				.iter()
				.all(|(x, y)| (*y < *a || *x > *b) || (*a <= *x && *y <= *b))
		})
	}
}

struct Nfa {
	/// eps[s] = epsilon successors; tr[s] = (interval class, target)
	eps: Vec<Vec<usize>>,
	tr: Vec<Vec<(usize, usize)>>,
}

impl Nfa {
	fn state(&mut self) -> usize {
		self.eps.push(Vec::new());
		self.tr.push(Vec::new());
		self.eps.len() - 1
	}
}

fn build(g: &Grammar, al: &Alphabet, n: &Node, nfa: &mut Nfa, depth: usize) -> (usize, usize) {
	assert!(depth < 64, "grammar is recursive (not regular by inlining)");
	match n {
		Node::Class(c) => {
			let s = nfa.state();
			let t = nfa.state();
			for (i, (x, y)) in al.intervals.iter().enumerate() {
				if c.iter().any(|(a, b)| *a <= *x && *y <= *b) {
					nfa.tr[s].push((i, t));
				}
			}
			(s, t)
		}
		Node::Ref(r) => build(g, al, &g.rules[r], nfa, depth + 1),
		Node::Alt(v) => {
			let s = nfa.state();
			let t = nfa.state();
			for x in v {
				let (a, b) = build(g, al, x, nfa, depth);
				nfa.eps[s].push(a);
				nfa.eps[b].push(t);
			}
			(s, t)
		}
		Node::Cat(v) => {
			let s = nfa.state();
			let mut cur = s;
			for x in v {
				let (a, b) = build(g, al, x, nfa, depth);
				nfa.eps[cur].push(a);
				cur = b;
			}
			(s, cur)
		}
		Node::Rep(lo, hi, body) => {
			let s = nfa.state();
			let mut cur = s;
			for _ in 0..*lo {
				let (a, b) = build(g, al, body, nfa, depth);
				nfa.eps[cur].push(a);
				cur = b;
			}
			match hi {
				None => {
					let (a, b) = build(g, al, body, nfa, depth);
					let t = nfa.state();
					nfa.eps[cur].push(a);
					nfa.eps[cur].push(t);
					nfa.eps[b].push(a);
					nfa.eps[b].push(t);
					(s, t)
				}
				Some(h) => {
					let t = nfa.state();
					nfa.eps[cur].push(t);
					for _ in *lo..*h {
						let (a, b) = build(g, al, body, nfa, depth);
						nfa.eps[cur].push(a);
						nfa.eps[b].push(t);
						cur = b;
					}
					(s, t)
				}
			}
		}
	}
}

/// Complete minimal DFA over interval classes. State 0 is initial.
#[derive(Clone, Debug)]
pub struct Dfa {
	pub alphabet: Alphabet,
	/// delta[state][class] = state
	pub delta: Vec<Vec<u32>>,
	pub accept: Vec<bool>,
	/// behavioural symbol classes: class_rep[k] = list of interval indices with identical columns
	pub sym_classes: Vec<Vec<usize>>,
}

impl Dfa {
	pub fn from_rule(g: &Grammar, al: &Alphabet, rule: &str) -> Dfa {
		let mut nfa = Nfa { eps: Vec::new(), tr: Vec::new() };
		let (s, t) = build(g, al, &g.rules[&rule.to_ascii_lowercase()], &mut nfa, 0);
		let k = al.intervals.len();
		let closure = |set: &mut BTreeSet<usize>, nfa: &Nfa| {
			let mut stack: Vec<usize> = set.iter().copied().collect();
			while let Some(x) = stack.pop() {
				for y in &nfa.eps[x] {
					if set.insert(*y) {
						stack.push(*y);
					}
				}
			}
		};
		let mut start = BTreeSet::new();
		start.insert(s);
		closure(&mut start, &nfa);
		let mut ids: HashMap<Vec<usize>, u32> = HashMap::new();
		let mut sets: Vec<Vec<usize>> = Vec::new();
		let mut delta: Vec<Vec<u32>> = Vec::new();
		let key = |b: &BTreeSet<usize>| b.iter().copied().collect::<Vec<_>>();
		ids.insert(key(&start), 0);
		sets.push(key(&start));
		delta.push(vec![u32::MAX; k]);
		let mut q = VecDeque::new();
		q.push_back(0u32);
		while let Some(d) = q.pop_front() {
			let cur = sets[d as usize].clone();
			// group targets per class
			let mut per: BTreeMap<usize, BTreeSet<usize>> = BTreeMap::new();
			for x in &cur {
				for (c, y) in &nfa.tr[*x] {
					per.entry(*c).or_default().insert(*y);
				}
			}
			for c in 0..k {
				let mut tgt = per.remove(&c).unwrap_or_default();
				closure(&mut tgt, &nfa);
				let kk = key(&tgt);
				let id = match ids.get(&kk) {
					Some(i) => *i,
					None => {
						let i = sets.len() as u32;
						ids.insert(kk.clone(), i);
						sets.push(kk);
						delta.push(vec![u32::MAX; k]);
						q.push_back(i);
						i
					}
				};
				delta[d as usize][c] = id;
			}
		}
		let accept: Vec<bool> = sets.iter().map(|st| st.contains(&t)).collect();
		let raw = Dfa { alphabet: al.clone(), delta, accept, sym_classes: Vec::new() };
		raw.minimize()
	}

	fn minimize(&self) -> Dfa {
		let n = self.delta.len();
		let k = self.alphabet.intervals.len();
		// Moore partition refinement
		let mut part: Vec<u32> = self.accept.iter().map(|a| *a as u32).collect();
		loop {
			let mut sig_ids: HashMap<(u32, Vec<u32>), u32> = HashMap::new();
			let mut next: Vec<u32> = Vec::with_capacity(n);
			for s in 0..n {
				let sig: Vec<u32> = (0..k).map(|c| part[self.delta[s][c] as usize]).collect();
				let l = sig_ids.len() as u32;
				let id = *sig_ids.entry((part[s], sig)).or_insert(l);
				next.push(id);
			}
			let nb_old = part.iter().collect::<BTreeSet<_>>().len();
			let nb_new = sig_ids.len();
			part = next;
			if nb_new == nb_old {
				break;
			}
		}
		// renumber in BFS order from the initial state so that numbering is canonical
		let mut order: Vec<u32> = Vec::new();
		let mut seen: HashMap<u32, u32> = HashMap::new();
		let mut rep: HashMap<u32, usize> = HashMap::new();
		for s in 0..n {
			rep.entry(part[s]).or_insert(s);
		}
		let mut q = VecDeque::new();
		seen.insert(part[0], 0);
		order.push(part[0]);
		q.push_back(part[0]);
		while let Some(b) = q.pop_front() {
			let s = rep[&b];
			for c in 0..k {
				let t = part[self.delta[s][c] as usize];
				if !seen.contains_key(&t) {
					seen.insert(t, order.len() as u32);
					order.push(t);
					q.push_back(t);
				}
			}
		}
		let m = order.len();
		let mut delta = vec![vec![0u32; k]; m];
		let mut accept = vec![false; m];
		for (i, b) in order.iter().enumerate() {
			let s = rep[b];
			accept[i] = self.accept[s];
			for c in 0..k {
				delta[i][c] = seen[&part[self.delta[s][c] as usize]];
			}
		}
		// behavioural symbol classes
		let mut cols: BTreeMap<Vec<u32>, Vec<usize>> = BTreeMap::new();
		for c in 0..k {
			let col: Vec<u32> = (0..m).map(|s| delta[s][c]).collect();
			cols.entry(col).or_default().push(c);
		}
		let mut sym_classes: Vec<Vec<usize>> = cols.into_values().collect();
		sym_classes.sort_by_key(|v| v[0]);
		Dfa { alphabet: self.alphabet.clone(), delta, accept, sym_classes }
	}

	pub fn states(&self) -> usize {
		self.delta.len()
	}

	#[inline]
	pub fn step(&self, s: u32, sym: u32) -> Option<u32> {
		self.alphabet.class_of(sym).map(|c| self.delta[s as usize][c])
	}

	pub fn accepts_syms(&self, syms: &[u32]) -> bool {
		let mut s = 0u32;
		for x in syms {
			match self.step(s, *x) {
				Some(t) => s = t,
				None => return false,
			}
		}
		self.accept[s as usize]
	}

	pub fn accepts_bytes_as_syms(&self, b: &[u8]) -> bool {
		let mut s = 0u32;
		for x in b {
			match self.step(s, *x as u32) {
				Some(t) => s = t,
				None => return false,
			}
		}
		self.accept[s as usize]
	}

	/// UTF-8 text -> scalar values -> run
	pub fn accepts_str(&self, t: &str) -> bool {
		let mut s = 0u32;
		for ch in t.chars() {
			match self.step(s, ch as u32) {
				Some(n) => s = n,
				None => return false,
			}
		}
		self.accept[s as usize]
	}

	/// Index of the (unique, if any) non-accepting sink.
	pub fn sink(&self) -> Option<u32> {
		(0..self.states() as u32).find(|s| !self.accept[*s as usize] && self.delta[*s as usize].iter().all(|t| t == s))
	}

	/// Shortest access string (as interval-class indices) of every state, BFS order.
	pub fn access_classes(&self) -> Vec<Vec<usize>> {
		let n = self.states();
		let k = self.alphabet.intervals.len();
		let mut acc: Vec<Option<Vec<usize>>> = vec![None; n];
		acc[0] = Some(vec![]);
		let mut q = VecDeque::new();
		q.push_back(0usize);
		while let Some(s) = q.pop_front() {
			for c in 0..k {
				let t = self.delta[s][c] as usize;
				if acc[t].is_none() {
					let mut v = acc[s].clone().unwrap();
					v.push(c);
					acc[t] = Some(v);
					q.push_back(t);
				}
			}
		}
		acc.into_iter().map(|a| a.expect("minimal DFA has only reachable states")).collect()
	}

	/// Characterisation set: suffixes (class-index strings) such that every pair of distinct
	/// states is separated by at least one of them. Built by backward BFS over state pairs.
	pub fn characterisation_set(&self) -> Vec<Vec<usize>> {
		let n = self.states();
		let k = self.alphabet.intervals.len();
		// dist[p][q] = shortest distinguishing suffix, computed by fixpoint over length
		let mut sep: Vec<Vec<Option<Vec<usize>>>> = vec![vec![None; n]; n];
		let mut pending = 0usize;
		for p in 0..n {
			for q in 0..n {
				if p != q {
					if self.accept[p] != self.accept[q] {
						sep[p][q] = Some(vec![]);
					} else {
						pending += 1;
					}
				}
			}
		}
		// only one representative interval per behavioural symbol class is needed
		let reps: Vec<usize> = self.sym_classes.iter().map(|v| v[0]).collect();
		let _ = k;
		while pending > 0 {
			let mut progress = false;
			let snapshot = sep.clone();
			for p in 0..n {
				for q in (p + 1)..n {
					if sep[p][q].is_some() {
						continue;
					}
					let mut best: Option<Vec<usize>> = None;
					for c in &reps {
						let (a, b) = (self.delta[p][*c] as usize, self.delta[q][*c] as usize);
						if a != b {
							if let Some(w) = &snapshot[a][b] {
								if best.as_ref().map(|x| w.len() + 1 < x.len()).unwrap_or(true) {
									let mut v = vec![*c];
									v.extend(w.iter().copied());
									best = Some(v);
								}
							}
						}
					}
					if let Some(b) = best {
						sep[p][q] = Some(b.clone());
						sep[q][p] = Some(b);
						pending -= 2;
						progress = true;
					}
				}
			}
			assert!(progress, "DFA is not minimal: indistinguishable states");
		}
		let mut w: BTreeSet<Vec<usize>> = BTreeSet::new();
		for p in 0..n {
			for q in (p + 1)..n {
				w.insert(sep[p][q].clone().unwrap());
			}
		}
		if w.is_empty() {
			w.insert(vec![]);
		}
		// drop suffixes that are not needed: greedy cover of state pairs
		let all: Vec<Vec<usize>> = w.into_iter().collect();
		let run = |s: usize, word: &[usize]| -> bool {
			let mut s = s;
			for c in word {
				s = self.delta[s][*c] as usize;
			}
			self.accept[s]
		};
		let sig: Vec<Vec<bool>> = all.iter().map(|wd| (0..n).map(|s| run(s, wd)).collect()).collect();
		let mut uncovered: BTreeSet<(usize, usize)> = BTreeSet::new();
		for p in 0..n {
			for q in (p + 1)..n {
				uncovered.insert((p, q));
			}
		}
		let mut chosen: Vec<usize> = Vec::new();
		while !uncovered.is_empty() {
			let mut best = (0usize, 0usize);
			for (i, sg) in sig.iter().enumerate() {
				if chosen.contains(&i) {
					continue;
				}
				let c = uncovered.iter().filter(|(p, q)| sg[*p] != sg[*q]).count();
				if c > best.1 {
					best = (i, c);
				}
			}
			assert!(best.1 > 0);
			chosen.push(best.0);
			let sg = &sig[best.0];
			uncovered.retain(|(p, q)| sg[*p] == sg[*q]);
		}
		chosen.sort();
		let mut out: Vec<Vec<usize>> = chosen.into_iter().map(|i| all[i].clone()).collect();
		if out.is_empty() {
			out.push(vec![]);
		}
		out
	}
}
