//! List model of path editing (C10), written from the property statement.
//!
//! A path state is (absolute?, segment list). Every operation maps a state to a *set* of
//! acceptable result lists (O1: where the statement leaves a corner open, every outcome
//! compatible with the text is accepted).

use super::pathlist::{self, Seg};
use serde_json::{json, Value};

#[derive(Clone, Debug, PartialEq, Eq, Hash, PartialOrd, Ord)]
pub enum Op {
	Push(Vec<u8>),
	Pop,
	Clear,
	SymPush(Vec<u8>),
	/// argument is a path text whose segments are appended
	SymAppend(Vec<u8>),
	Normalize,
}

impl Op {
	pub fn name(&self) -> &'static str {
		match self {
			Op::Push(_) => "push",
			Op::Pop => "pop",
			Op::Clear => "clear",
			Op::SymPush(_) => "symbolic_push",
			Op::SymAppend(_) => "symbolic_append",
			Op::Normalize => "normalize",
		}
	}
	pub fn to_json(&self) -> Value {
		use crate::engine::bytes_json;
		match self {
			Op::Push(s) => json!(["push", bytes_json(s)]),
			Op::Pop => json!(["pop"]),
			Op::Clear => json!(["clear"]),
			Op::SymPush(s) => json!(["symbolic_push", bytes_json(s)]),
			Op::SymAppend(p) => json!(["symbolic_append", bytes_json(p)]),
			Op::Normalize => json!(["normalize"]),
		}
	}
	pub fn from_json(v: &Value) -> Option<Op> {
		use crate::engine::json_bytes;
		let a = v.as_array()?;
		let arg = || a.get(1).and_then(json_bytes);
		Some(match a.first()?.as_str()? {
			"push" => Op::Push(arg()?),
			"pop" => Op::Pop,
			"clear" => Op::Clear,
			"symbolic_push" => Op::SymPush(arg()?),
			"symbolic_append" => Op::SymAppend(arg()?),
			"normalize" => Op::Normalize,
			_ => return None,
		})
	}
	pub fn describe(&self) -> String {
		use crate::engine::lossy;
		match self {
			Op::Push(s) => format!("push({:?})", lossy(s)),
			Op::Pop => "pop()".into(),
			Op::Clear => "clear()".into(),
			Op::SymPush(s) => format!("symbolic_push({:?})", lossy(s)),
			Op::SymAppend(p) => format!("symbolic_append({:?})", lossy(p)),
			Op::Normalize => "normalize()".into(),
		}
	}
}

fn dot(s: &[u8]) -> bool {
	s == b"."
}
fn dotdot(s: &[u8]) -> bool {
	s == b".."
}

/// pop per the statement: removes the last segment; on an empty relative path or a path ending
/// in ".." it appends ".." instead; an empty absolute path is left alone.
/// `rel_empty_may_stay`: the path follows an authority, where an empty path may count as the
/// root (then "left alone" is acceptable too).
pub fn pop(abs: bool, l: &[Seg], rel_empty_may_stay: bool) -> Vec<Vec<Seg>> {
	match l.last() {
		None => {
			if abs {
				vec![vec![]]
			} else if rel_empty_may_stay {
				vec![vec![], vec![b"..".to_vec()]]
			} else {
				vec![vec![b"..".to_vec()]]
			}
		}
		Some(s) if dotdot(s) => {
			let mut v = l.to_vec();
			v.push(b"..".to_vec());
			vec![v]
		}
		Some(_) => {
			let r = l[..l.len() - 1].to_vec();
			if r.len() == 1 && r[0].is_empty() && !abs {
				// a relative path made of one empty segment has no plain text: identified with no
				// segments. (An ABSOLUTE path keeps its lone empty segment: it is written "/./", and
				// "/" would be a different path - the one `pop` must not produce from "//x".)
				vec![r, vec![]]
			} else {
				vec![r]
			}
		}
	}
}

/// A leading "." in front of a segment that is empty or contains ':' may be a shield: such a
/// list may be re-read without it.
fn with_shield_readings(v: Vec<Vec<Seg>>) -> Vec<Vec<Seg>> {
	let mut out = Vec::new();
	for l in v {
		if l.len() >= 2 && l[0] == b"." && pathlist::shield_allowed(&l[1..]) {
			out.push(l[1..].to_vec());
		}
		if pathlist::shield_allowed(&l) {
			// ... and a list that needs a shield may be held in its shielded form, which a later
			// step of the same call may treat literally
			let mut sh = vec![b".".to_vec()];
			sh.extend(l.iter().cloned());
			out.push(sh);
		}
		out.push(l);
	}
	dedup(out)
}

fn push(l: &[Seg], s: &[u8]) -> Vec<Seg> {
	let mut v = l.to_vec();
	v.push(s.to_vec());
	v
}

fn dedup(mut v: Vec<Vec<Seg>>) -> Vec<Vec<Seg>> {
	v.sort();
	v.dedup();
	v
}

/// Impl-level symbolic push (no trailing empty segment): returns (results, open).
fn sym_step(abs: bool, l: &[Seg], s: &[u8], follows_authority: bool) -> (Vec<Vec<Seg>>, bool) {
	if dot(s) {
		(vec![l.to_vec()], true)
	} else if dotdot(s) {
		(pop(abs, l, follows_authority), true)
	} else if s.is_empty() && l.is_empty() {
		// O2: pinned resolution results need the empty segment pushed onto a segment-less path
		// to be skippable; the literal append is acceptable as well.
		(vec![l.to_vec(), push(l, s)], false)
	} else {
		(vec![push(l, s)], false)
	}
}

/// Acceptable result lists of `op` applied to the reading (abs, l).
pub fn step(abs: bool, l: &[Seg], op: &Op, follows_authority: bool) -> Vec<Vec<Seg>> {
	match op {
		Op::Push(s) => vec![push(l, s)],
		Op::Pop => pop(abs, l, follows_authority),
		Op::Clear => vec![vec![]],
		Op::SymPush(s) => {
			// directory meaning: "." keeps the directory, ".." goes to the parent; the result
			// denotes a directory, which may be written with a trailing empty segment when there
			// is any segment left.
			let (rs, open) = sym_step(abs, l, s, follows_authority);
			let mut out = Vec::new();
			for r in rs {
				if open {
					if !r.is_empty() {
						out.push(push(&r, b""));
					}
					out.push(r);
				} else {
					out.push(r);
				}
			}
			dedup(out)
		}
		Op::SymAppend(p) => {
			let pl = pathlist::split(p);
			let mut cur: Vec<Vec<Seg>> = vec![l.to_vec()];
			let mut open = false;
			for s in &pl.segs {
				let mut next = Vec::new();
				for c in &cur {
					let (rs, o) = sym_step(abs, c, s, follows_authority);
					open = o;
					next.extend(rs);
				}
				cur = with_shield_readings(next);
			}
			let mut out = Vec::new();
			for c in cur {
				if open && !c.is_empty() {
					out.push(push(&c, b""));
				} else {
					out.push(c);
				}
			}
			dedup(out)
		}
		Op::Normalize => vec![pathlist::normalize_segments(abs, l)],
	}
}

/// Abstract readings of an observed path text: the literal split, and - when the text starts
/// with a legal "." shield - the list without the shield.
pub fn readings(text: &[u8]) -> (bool, Vec<Vec<Seg>>) {
	let m = pathlist::split(text);
	let mut v = vec![m.segs.clone()];
	if m.segs.len() >= 2 && m.segs[0] == b"." && pathlist::shield_allowed(&m.segs[1..]) {
		v.push(m.segs[1..].to_vec());
	}
	(m.abs, v)
}
