//! Enumeration domains shared by the property drivers (DESIGN section 5.5).

use super::pathlist;
use crate::fam::Family;

pub fn b(s: &str) -> Vec<u8> {
	s.as_bytes().to_vec()
}

/// Segment alphabet SEG. `level` 0 = structural core, 1 = quick, 2 = thorough.
pub fn seg_alphabet(f: Family, level: u8) -> Vec<Vec<u8>> {
	let mut v: Vec<&str> = vec!["", ".", "..", "a", "a:b"];
	if level >= 1 {
		v.extend(["b", "%2E", "%41", "A", "~", "x@y"]);
	}
	if level >= 2 {
		v.extend(["%2F", "%FF", "%c3%a9", "...", ".a", ";=+"]);
	}
	if f == Family::Iri {
		v.push("é");
		if level >= 1 {
			v.push("%C3%A9");
		}
		if level >= 2 {
			v.extend(["\u{20AC}", "\u{1F600}"]);
		}
	}
	v.into_iter().map(b).collect()
}

/// Every path text {relative, absolute} x segs^{<=n}, in odometer order, without duplicates
/// (a text is produced once: the plain rendering is skipped when it is not faithful, because
/// the same text is then produced by another (abs, list) pair).
pub fn for_each_path(alpha: &[Vec<u8>], n: usize, mut f: impl FnMut(&[u8])) {
	for abs in [false, true] {
		crate::engine::enumerate::for_each_seq_upto(alpha.len(), n, |idx| {
			let segs: Vec<Vec<u8>> = idx.iter().map(|i| alpha[*i].clone()).collect();
			if pathlist::plain_is_faithful(abs, &segs) {
				let t = pathlist::plain(abs, &segs);
				f(&t);
			}
			true
		});
	}
}

pub fn paths(alpha: &[Vec<u8>], n: usize) -> Vec<Vec<u8>> {
	let mut v = Vec::new();
	for_each_path(alpha, n, |t| v.push(t.to_vec()));
	v
}
