//! Enumeration domains shared by the property drivers (DESIGN section 5.5).

use super::pathlist;
use crate::fam::Family;

use std::sync::atomic::{AtomicU8, Ordering};

/// The non-ASCII representative of every domain is 'é' (2 UTF-8 bytes). A "wide pass" re-runs the
/// IRI half of a driver with that representative replaced by a 3-byte or a 4-byte character that is
/// allowed in exactly the same places (ucschar): U+D7FF (last scalar before the surrogates) and
/// U+10000 (first supplementary scalar). The width of a character is input state for every
/// hand-written byte scanner.
pub const WIDE_VARIANTS: [&str; 3] = ["é", "\u{D7FF}", "\u{10000}"];
static WIDE: AtomicU8 = AtomicU8::new(0);

pub fn set_wide(i: u8) {
	assert!((i as usize) < WIDE_VARIANTS.len());
	WIDE.store(i, Ordering::SeqCst);
}

pub fn wide() -> u8 {
	WIDE.load(Ordering::Relaxed)
}

pub fn b(s: &str) -> Vec<u8> {
	match wide() {
		0 => s.as_bytes().to_vec(),
		i => s.replace('é', WIDE_VARIANTS[i as usize]).into_bytes(),
	}
}

/// Segment alphabet SEG. `level` 0 = structural core, 1 = quick, 2 = thorough.
pub fn seg_alphabet(f: Family, level: u8) -> Vec<Vec<u8>> {
	// "1:b": a first segment that contains ':' without looking like a scheme
	let mut v: Vec<&str> = vec!["", ".", "..", "a", "a:b", "1:b"];
	if level >= 1 {
		// "%2E%2E": an ordinary segment that only DECODES to ".."
		// "...", "a..": ordinary segments that merely END with ".."
		v.extend(["b", "%2E", "%2E%2E", "%41", "A", "~", "x@y", "...", "a..", "%FF"]);
	}
	if level >= 2 {
		v.extend(["%2F", "%c3%a9", ".a", ";=+"]);
	}
	if f == Family::Iri {
		v.push("é");
		if level >= 1 {
			// "¯" / "®": last UTF-8 byte is the high-bit twin of '/' / '.'
			// "\u{12F}" / "\u{12E}": code points whose LOW BYTE is '/' / '.' (a `char as u8` cast)
			v.extend(["%C3%A9", "¯", "®", "\u{12F}", "\u{12E}"]);
		}
		if level >= 2 {
			v.extend(["\u{20AC}", "\u{1F600}"]);
		}
	}
	v.into_iter().map(b).collect()
}

/// Every path text {relative, absolute} x segs^{<=n}, in odometer order, without duplicates
/// (a text is produced once: the plain rendering is skipped when it is not faithful, because
/// the same text is then produced by another (abs, list) pair).
pub fn for_each_path(alpha: &[Vec<u8>], n: usize, mut f: impl FnMut(&[u8])) {
	for abs in [false, true] {
		crate::engine::enumerate::for_each_seq_upto(alpha.len(), n, |idx| {
			let segs: Vec<Vec<u8>> = idx.iter().map(|i| alpha[*i].clone()).collect();
			if pathlist::plain_is_faithful(abs, &segs) {
				let t = pathlist::plain(abs, &segs);
				f(&t);
			}
			true
		});
	}
}

pub fn paths(alpha: &[Vec<u8>], n: usize) -> Vec<Vec<u8>> {
	let mut v = Vec::new();
	for_each_path(alpha, n, |t| v.push(t.to_vec()));
	v
}

/// RAW token alphabet: no structure assumed. level 0 = the seven special bytes + one
/// representative of the other classes; level 1 adds decoys.
pub fn raw_alphabet(f: Family, level: u8) -> Vec<Vec<u8>> {
	let mut v: Vec<&str> = vec!["a", ":", "/", "?", "#", "@", "1", "%41", ".", "[", "]"];
	if f == Family::Iri {
		v.push("é");
	}
	if level >= 1 {
		v.extend([";", "=", "+", "-", "~", "A", "%"]);
	}
	v.into_iter().map(b).collect()
}

/// Shards of the RAW(n) space: shard 0 holds the strings of fewer than two tokens, shard
/// 1 + i*k + j holds every string that starts with tokens (i, j).
pub fn raw_shard_count(k: usize) -> usize {
	1 + k * k
}

/// All strings of at most n tokens over the alphabet that belong to `shard`.
pub fn for_each_raw(alpha: &[Vec<u8>], n: usize, shard: usize, mut f: impl FnMut(&[u8])) {
	let k = alpha.len();
	let mut buf: Vec<u8> = Vec::new();
	if shard == 0 {
		f(&buf);
		if n >= 1 {
			for t in alpha {
				f(t);
			}
		}
		return;
	}
	if n < 2 {
		return;
	}
	let (i, j) = ((shard - 1) / k, (shard - 1) % k);
	let mut prefix = alpha[i].clone();
	prefix.extend_from_slice(&alpha[j]);
	crate::engine::enumerate::for_each_seq_upto(k, n - 2, |idx| {
		buf.clear();
		buf.extend_from_slice(&prefix);
		for x in idx {
			buf.extend_from_slice(&alpha[*x]);
		}
		f(&buf);
		true
	});
}

pub fn userinfo_options(f: Family, level: u8) -> Vec<Option<Vec<u8>>> {
	let mut v: Vec<Option<&str>> = vec![None, Some(""), Some("u"), Some("u:p")];
	if level >= 1 {
		v.extend([Some(":"), Some("%41"), Some("a:b:c")]);
		if f == Family::Iri {
			v.push(Some("é"));
		}
	}
	v.into_iter().map(|o| o.map(b)).collect()
}

pub fn host_options(f: Family, level: u8) -> Vec<Vec<u8>> {
	let mut v: Vec<&str> = vec!["", "h", "[::1]", "1.2.3.4"];
	if level >= 1 {
		v.extend(["a.b", "[1:2::8]", "[::ffff:1.2.3.4]", "[v1.a:b]", "%41", "h%2E"]);
		if f == Family::Iri {
			v.push("é");
		}
	}
	v.into_iter().map(b).collect()
}

pub fn port_options(level: u8) -> Vec<Option<Vec<u8>>> {
	let mut v: Vec<Option<&str>> = vec![None, Some(""), Some("8")];
	if level >= 1 {
		v.extend([Some("80"), Some("065535")]);
	}
	v.into_iter().map(|o| o.map(b)).collect()
}

/// AUTH: the full product user-info x host x port as (text, parts).
pub fn authorities(f: Family, level: u8) -> Vec<(Vec<u8>, super::syntax::AuthParts)> {
	let mut out = Vec::new();
	for u in userinfo_options(f, level) {
		for h in host_options(f, level) {
			for p in port_options(level) {
				let parts = super::syntax::AuthParts { userinfo: u.clone(), host: h.clone(), port: p.clone() };
				out.push((super::syntax::recompose_authority(&parts), parts));
			}
		}
	}
	out
}

pub fn scheme_options(level: u8) -> Vec<Option<Vec<u8>>> {
	let mut v: Vec<Option<&str>> = vec![None, Some("s")];
	if level >= 1 {
		v.push(Some("ab+1.-"));
	}
	v.into_iter().map(|o| o.map(b)).collect()
}

pub fn query_options(f: Family, level: u8) -> Vec<Option<Vec<u8>>> {
	let mut v: Vec<Option<&str>> = vec![None, Some(""), Some("q")];
	if level >= 1 {
		v.push(Some("a:b/c?d"));
		if f == Family::Iri {
			v.push(Some("\u{E000}"));
		}
	}
	v.into_iter().map(|o| o.map(b)).collect()
}

pub fn fragment_options(_f: Family, level: u8) -> Vec<Option<Vec<u8>>> {
	let mut v: Vec<Option<&str>> = vec![None, Some(""), Some("f")];
	if level >= 1 {
		v.push(Some("a:/?b"));
	}
	v.into_iter().map(|o| o.map(b)).collect()
}

/// REF: compositions of component alphabets, recomposed per RFC 3986 5.3 and kept iff the
/// reference decomposition gives back the chosen components (drops ambiguous compositions).
/// Validity is decided by the caller (reference DFA).
pub fn references(
	schemes: &[Option<Vec<u8>>],
	auths: &[Option<Vec<u8>>],
	paths: &[Vec<u8>],
	queries: &[Option<Vec<u8>>],
	fragments: &[Option<Vec<u8>>],
) -> Vec<(Vec<u8>, super::syntax::Parts)> {
	let mut out = Vec::new();
	for s in schemes {
		for a in auths {
			for p in paths {
				for q in queries {
					for fr in fragments {
						let parts = super::syntax::Parts {
							scheme: s.clone(),
							authority: a.clone(),
							path: p.clone(),
							query: q.clone(),
							fragment: fr.clone(),
						};
						let t = super::syntax::recompose(&parts);
						if super::syntax::split(&t) == parts {
							out.push((t, parts));
						}
					}
				}
			}
		}
	}
	out
}

/// Paths crossing the inline-buffer thresholds of the library (16 segments, 512 bytes), in a
/// few shapes: plain, with dot segments to remove, with empty segments, with a long segment.
pub fn long_paths(abs: bool) -> Vec<Vec<u8>> {
	let pre = if abs { "/" } else { "" };
	let segs = |n: usize| (0..n).map(|i| format!("s{i}")).collect::<Vec<_>>().join("/");
	let big = "L".repeat(600);
	let mut v: Vec<String> = Vec::new();
	for n in [16usize, 17, 20] {
		v.push(format!("{pre}{}", segs(n)));
		v.push(format!("{pre}{}/", segs(n)));
		v.push(format!("{pre}{}/../x", segs(n)));
		v.push(format!("{pre}{}/./y/..", segs(n)));
	}
	v.push(format!("{pre}{}/{}", segs(3), big));
	v.push(format!("{pre}{big}/../{}", segs(3)));
	v.push(format!("{pre}a//{big}/.//b"));
	// more segments than a one-byte counter holds
	v.push(format!("{pre}{}", vec!["a"; 300].join("/")));
	v.into_iter().map(|s| s.into_bytes()).collect()
}

/// Scalars that general-purpose string code treats specially although the IRI grammar does not:
/// Unicode white space that `str::trim` strips (U+00A0 is also the FIRST ucschar), the byte-order
/// mark, zero-width and bidi controls, characters whose case mapping leaves or enters ASCII
/// (KELVIN SIGN lower-cases to 'k', LONG S upper-cases to 'S', dotted capital I), the first and last
/// scalar of a few ucschar / iprivate blocks, noncharacter neighbours. All but the last three are
/// ucschar (allowed wherever 'é' is); U+E000 / U+F8FF are iprivate (query only); U+FFFD is in no
/// IRI production.
pub fn special_scalars() -> Vec<char> {
	vec![
		'\u{A0}', '\u{1680}', '\u{2000}', '\u{200A}', '\u{2028}', '\u{2029}', '\u{202F}', '\u{205F}', '\u{3000}', '\u{85}', '\u{FEFF}', '\u{200B}', '\u{200E}', '\u{202E}',
		'\u{AD}', '\u{212A}', '\u{17F}', '\u{130}', '\u{DF}', '\u{D7FF}', '\u{F900}', '\u{FDCF}', '\u{FDF0}', '\u{FFEF}', '\u{10000}', '\u{1FFFD}', '\u{E1000}', '\u{EFFFD}',
		'\u{E000}', '\u{F8FF}', '\u{FFFD}',
	]
}

/// Segments whose byte lengths sit on and around machine-word / vector block sizes (a scanner that
/// works on 8-, 16- or 32-byte blocks has its own boundaries).
pub fn block_length_segments() -> Vec<Vec<u8>> {
	[7usize, 8, 9, 15, 16, 17, 31, 32, 33].iter().map(|n| "abcdefghijklmnopqrstuvwxyz0123456789".bytes().cycle().take(*n).collect()).collect()
}

/// First and last scalar of every ucschar / iprivate block of RFC 3987 and their outside
/// neighbours, plus the special scalars above.
pub fn boundary_and_special_scalars() -> Vec<char> {
	let blocks: [(u32, u32); 20] = [
		(0xA0, 0xD7FF), (0xF900, 0xFDCF), (0xFDF0, 0xFFEF), (0x10000, 0x1FFFD), (0x20000, 0x2FFFD), (0x30000, 0x3FFFD), (0x40000, 0x4FFFD), (0x50000, 0x5FFFD),
		(0x60000, 0x6FFFD), (0x70000, 0x7FFFD), (0x80000, 0x8FFFD), (0x90000, 0x9FFFD), (0xA0000, 0xAFFFD), (0xB0000, 0xBFFFD), (0xC0000, 0xCFFFD), (0xD0000, 0xDFFFD),
		(0xE1000, 0xEFFFD), (0xE000, 0xF8FF), (0xF0000, 0xFFFFD), (0x100000, 0x10FFFD),
	];
	let mut v = special_scalars();
	for (lo, hi) in blocks {
		for c in [lo.wrapping_sub(1), lo, hi, hi + 1] {
			if let Some(ch) = char::from_u32(c) {
				v.push(ch);
			}
		}
	}
	v.push('\u{7F}');
	v.push('\u{80}');
	v.push('\u{9F}');
	v.extend(byte_complete_scalars());
	v.sort();
	v.dedup();
	v
}

/// Scalars whose UTF-8 encodings show every possible byte value: each continuation byte
/// 0x80..=0xBF (after the lead byte 0xC3) and each lead byte 0xC2..=0xF4 (a scanner that tests
/// bytes through a table or a bit set can single out any one of them).
pub fn byte_complete_scalars() -> Vec<char> {
	let mut v: Vec<char> = (0xC0u32..=0xFF).filter_map(char::from_u32).collect();
	// two-byte leads C2..DF: lead << 6; three-byte leads E0..EF: lead << 12 (E0 needs A0 as second
	// byte, ED stays below the surrogates); four-byte leads F0..F4
	v.push('\u{A0}');
	for lead in 0xC4u32..=0xDF {
		v.push(char::from_u32((lead & 0x1F) << 6).unwrap());
	}
	v.push('\u{800}');
	for lead in 0xE1u32..=0xEF {
		v.push(char::from_u32((lead & 0x0F) << 12).unwrap());
	}
	for c in [0x10000u32, 0x40000, 0x80000, 0xC0000, 0x100000] {
		v.push(char::from_u32(c).unwrap());
	}
	v
}

/// Short reference texts holding one such scalar in every component position, first and last.
pub fn special_scalar_texts() -> Vec<Vec<u8>> {
	let mut out = Vec::new();
	for x in boundary_and_special_scalars() {
		for tpl in ["X", "s:X", "//X", "//X@X:1/X", "s://h/X?X#X", "Xa", "aX", "aXa", "?X", "#X", "s:?X", "s:#X", "X/X", "/X", "s:a/X:b"] {
			out.push(tpl.replace('X', &x.to_string()).into_bytes());
		}
	}
	// every shape of the IPv6address production (n groups, "::", m groups; with and without an IPv4
	// tail) and IPvFuture literals: the two families have separate copies of these rules
	for n in 0..=7usize {
		for m in 0..=(7 - n) {
			let left = vec!["1"; n].join(":");
			let right = vec!["2"; m].join(":");
			out.push(format!("s://[{left}::{right}]/").into_bytes());
			if m >= 1 {
				let r4 = if m > 1 { format!("{}:1.2.3.4", vec!["2"; m - 1].join(":")) } else { "1.2.3.4".to_string() };
				out.push(format!("s://[{left}::{r4}]/").into_bytes());
			}
		}
	}
	for t in ["s://[1:2:3:4:5:6:7:8]/", "s://[1:2:3:4:5:6:1.2.3.4]/", "s://[v1.a]/", "s://[V1f.a:b]/", "s://[v1.x:y]/", "s://[::1.2.3.256]/"] {
		out.push(t.as_bytes().to_vec());
	}
	// every component in turn at the lengths around the block sizes a scanner may work in
	for n in [7usize, 8, 9, 15, 16, 17, 31, 32, 33, 63, 64, 65, 127, 128, 129, 255, 256, 257] {
		let k = "k".repeat(n);
		let k1 = "k".repeat(n - 1);
		for t in [
			format!("{k}:a"), format!("{k}://h/p?q#f"), format!("{k1}:"), format!("//{k}/p"), format!("s://{k}@h:1/p"), format!("s://u@{k}:1/p"), format!("s://h:{}/p", "1".repeat(n)),
			format!("{k}/p"), format!("s:{k}"), format!("s://h/{k}?q#f"), format!("/{k}"), format!("?{k}"), format!("s:p?{k}#f"), format!("#{k}"), format!("s:p?q#{k}"),
			format!("{k1}é:a"), format!("s:{k1}é"), format!("s:p?{k1}é"), format!("s:p#{k1}é"), format!("//{k1}é/"),
		] {
			out.push(t.into_bytes());
		}
	}
	out
}

/// Every printable ASCII character substituted for X in each template (callers filter by validity):
/// one representative per character class cannot see a scanner that singles out one member.
pub fn ascii_sweep(templates: &[&str]) -> Vec<Vec<u8>> {
	let mut out = Vec::new();
	for c in 0x21u8..0x7F {
		for t in templates {
			out.push(t.replace('X', &(c as char).to_string()).into_bytes());
		}
	}
	out.sort();
	out.dedup();
	out
}

/// Schemes that software commonly treats specially (this crate: `data` under its feature) and
/// their neighbours - one character more, a `+` / `-` / `.` / digit suffix, one character less (a
/// shortcut keyed on a literal prefix must also look at what follows it) - through a set of shapes.
pub fn well_known_scheme_texts() -> Vec<Vec<u8>> {
	let mut schemes: Vec<String> = Vec::new();
	for sch in ["data", "DATA", "Data", "http", "https", "file", "ftp", "urn", "mailto", "tag", "ws", "wss", "about", "blob", "javascript"] {
		schemes.push(sch.to_string());
		for suf in ["x", "s", "+u", "-u", ".u", "2"] {
			schemes.push(format!("{sch}{suf}"));
		}
		schemes.push(sch[..sch.len() - 1].to_string());
	}
	let mut texts = Vec::new();
	for sch in &schemes {
		for tpl in [
			"S:", "S:a", "S:,a?b", "S:,a?", "S:,a#f?x", "S://h/p?q#f", "S:/p?q", "S:?q", "S:#f", "S:a:b?q#f", "S:text/plain;base64,QQ==?x#y", "S://h?q", "S://u@h:1", "S:;base64,QQ==#f", "S:;base64,QQ==?q",
			"S:text/plain", "S:a/./b", "S:x?a,b#c",
		] {
			texts.push(tpl.replace('S', sch).into_bytes());
		}
	}
	texts
}
