//! Self-checks of the reference models (DESIGN section 5): two independent formulations must
//! agree. Run by `./check selftest` and at the start of the properties that depend on them.

use super::{abnf, dfa, load_spec, pathlist, rule_of};
use crate::engine::enumerate::for_each_seq_upto;
use crate::fam::{validated_types, Family};
use std::path::Path;

/// DFA vs direct derivation matcher on all strings of length <= n over one representative per
/// behavioural symbol class (+ access strings).
pub fn dfa_vs_matcher(g: &abnf::Grammar, d: &dfa::Dfa, rule: &str, n: usize) -> Result<u64, String> {
	let reps: Vec<u32> = d.sym_classes.iter().map(|c| d.alphabet.intervals[c[0]].0).collect();
	let mut cnt = 0u64;
	let mut err = None;
	for_each_seq_upto(reps.len(), n, |idx| {
		let syms: Vec<u32> = idx.iter().map(|i| reps[*i]).collect();
		cnt += 1;
		let a = d.accepts_syms(&syms);
		let m = g.matches(rule, &syms);
		if a != m {
			err = Some(format!("rule {rule}: DFA={a} matcher={m} on {:?}", syms));
			return false;
		}
		true
	});
	if let Some(e) = err {
		return Err(e);
	}
	// access strings extended by every class representative
	for acc in d.access_classes() {
		for r in &reps {
			let mut syms: Vec<u32> = acc.iter().map(|c| d.alphabet.intervals[*c].0).collect();
			syms.push(*r);
			cnt += 1;
			let a = d.accepts_syms(&syms);
			let m = g.matches(rule, &syms);
			if a != m {
				return Err(format!("rule {rule}: DFA={a} matcher={m} on access string {:?}", syms));
			}
		}
	}
	Ok(cnt)
}

pub fn pathlist_checks() -> Result<u64, String> {
	// remove_dot_segments_list vs literal RFC 3986 5.2.4 on absolute paths with <= 6 segments
	let alpha: Vec<Vec<u8>> = ["", ".", "..", "a"].iter().map(|s| s.as_bytes().to_vec()).collect();
	let mut cnt = 0u64;
	let mut err = None;
	for_each_seq_upto(alpha.len(), 6, |idx| {
		let segs: Vec<Vec<u8>> = idx.iter().map(|i| alpha[*i].clone()).collect();
		if !pathlist::plain_is_faithful(true, &segs) {
			return true;
		}
		let text = pathlist::plain(true, &segs);
		let lit = pathlist::rfc_5_2_4(&text);
		let mine = pathlist::plain(true, &pathlist::remove_dot_segments_list(true, &segs));
		cnt += 1;
		if lit != mine {
			err = Some(format!(
				"5.2.4 mismatch on {:?}: literal {:?} vs list {:?}",
				String::from_utf8_lossy(&text),
				String::from_utf8_lossy(&lit),
				String::from_utf8_lossy(&mine)
			));
			return false;
		}
		true
	});
	match err {
		Some(e) => Err(e),
		None => Ok(cnt),
	}
}

pub fn run(root: &Path) -> bool {
	let mut ok = true;
	for f in Family::BOTH {
		let sp = load_spec(root, f);
		println!("selftest: {} alphabet intervals={}", f.name(), sp.alphabet.intervals.len());
		for (tf, k) in validated_types() {
			if tf != f {
				continue;
			}
			let rule = rule_of(f, k);
			let d = dfa::Dfa::from_rule(&sp.grammar, &sp.alphabet, rule);
			let n = if d.states() > 20 { 3 } else { 4 };
			match dfa_vs_matcher(&sp.grammar, &d, rule, n) {
				Ok(c) => println!(
					"selftest: {}::{} rule={} states={} sym_classes={} |W|={} strings={} OK",
					f.name(),
					k.name(),
					rule,
					d.states(),
					d.sym_classes.len(),
					d.characterisation_set().len(),
					c
				),
				Err(e) => {
					println!("selftest: FAIL {e}");
					ok = false;
				}
			}
		}
	}
	match pathlist_checks() {
		Ok(c) => println!("selftest: 5.2.4 literal vs list formulation on {c} absolute paths OK"),
		Err(e) => {
			println!("selftest: FAIL {e}");
			ok = false;
		}
	}
	match super::resolve::selfcheck() {
		Ok(c) => println!("selftest: resolution model reproduces the {c} examples of RFC 3986 5.4.1/5.4.2 OK"),
		Err(e) => {
			println!("selftest: FAIL {e}");
			ok = false;
		}
	}
	ok
}
