//! Chow's W-method conformance suite P · Σ^{<=m} · W for a reference DFA, streamed.
//!
//! Theorem used: if the implementation is a DFA with at most n + m states (n = states of the
//! minimal reference DFA) over the suite's alphabet and agrees with the reference on every
//! string of (S ∪ S·Σ) · Σ^{<=m} · W, then both accept the same language.

use super::dfa::Dfa;

pub struct Suite<'a> {
	pub dfa: &'a Dfa,
	/// boundary alphabet B (symbols)
	pub boundary: Vec<u32>,
	/// class alphabet K: one symbol per behaviourally distinct class
	pub class_reps: Vec<u32>,
	/// state cover: shortest access string of every state (symbols) with the state reached
	pub access: Vec<(Vec<u32>, u32)>,
	/// characterisation set (symbols)
	pub w: Vec<Vec<u32>>,
}

/// `all_symbols`: use every symbol of every interval when the symbol space is small (bytes);
/// otherwise lowest, highest and one interior symbol of every interval.
pub fn boundary_alphabet(d: &Dfa, all_symbols: bool) -> Vec<u32> {
	let mut v = Vec::new();
	for (a, b) in &d.alphabet.intervals {
		if all_symbols {
			for x in *a..=*b {
				v.push(x);
			}
		} else {
			v.push(*a);
			if b > a {
				v.push(*b);
			}
			if *b > *a + 1 {
				v.push(*a + (*b - *a) / 2);
			}
		}
	}
	v
}

impl<'a> Suite<'a> {
	pub fn new(d: &'a Dfa, all_symbols: bool) -> Self {
		let iv = &d.alphabet.intervals;
		let boundary = boundary_alphabet(d, all_symbols);
		let class_reps: Vec<u32> = d.sym_classes.iter().map(|c| iv[c[0]].0).collect();
		let acc = d.access_classes();
		let access: Vec<(Vec<u32>, u32)> = acc
			.iter()
			.enumerate()
			.map(|(s, cs)| (cs.iter().map(|c| iv[*c].0).collect(), s as u32))
			.collect();
		let w: Vec<Vec<u32>> = d
			.characterisation_set()
			.into_iter()
			.map(|cs| cs.iter().map(|c| iv[*c].0).collect())
			.collect();
		Suite { dfa: d, boundary, class_reps, access, w }
	}

	/// Number of traces of the suite for a given m and middle alphabet size.
	pub fn size(&self, m: u32, middle: usize) -> u64 {
		let p = self.access.len() as u64 * (1 + self.boundary.len() as u64);
		let mid: u64 = (0..=m).map(|l| (middle as u64).pow(l)).sum();
		p * mid * self.w.len() as u64
	}

	/// Stream the part of the suite that belongs to access string `ai` (one shard per state):
	/// (access[ai] · (ε | b∈B)) · middle^{<=m} · W. `f(symbols, expected)`.
	pub fn for_each_trace(&self, ai: usize, m: u32, middle: &[u32], mut f: impl FnMut(&[u32], bool)) {
		let d = self.dfa;
		let (acc, st) = &self.access[ai];
		let mut buf: Vec<u32> = acc.clone();
		let base_len = buf.len();
		// prefixes: ε and every boundary symbol
		let mut prefixes: Vec<(Option<u32>, u32)> = vec![(None, *st)];
		for b in &self.boundary {
			prefixes.push((Some(*b), d.step(*st, *b).expect("boundary symbol is in the alphabet")));
		}
		for (sym, s1) in prefixes {
			buf.truncate(base_len);
			if let Some(x) = sym {
				buf.push(x);
			}
			let pl = buf.len();
			crate::engine::enumerate::for_each_seq_upto(middle.len(), m as usize, |idx| {
				buf.truncate(pl);
				let mut s = s1;
				for i in idx {
					buf.push(middle[*i]);
					s = d.step(s, middle[*i]).unwrap();
				}
				let ml = buf.len();
				for w in &self.w {
					buf.truncate(ml);
					let mut t = s;
					for x in w {
						buf.push(*x);
						t = d.step(t, *x).unwrap();
					}
					f(&buf, d.accept[t as usize]);
				}
				true
			});
		}
	}

	/// The m = 0 suite with the class alphabet as transition cover: a small complete suite
	/// (for implementations with at most n states over K), reused by C14 and C17.
	pub fn small_suite(&self) -> Vec<(Vec<u32>, bool)> {
		let d = self.dfa;
		let mut out = Vec::new();
		let mut seen = std::collections::BTreeSet::new();
		for (acc, st) in &self.access {
			let mut prefixes: Vec<(Vec<u32>, u32)> = vec![(acc.clone(), *st)];
			for k in &self.class_reps {
				let mut p = acc.clone();
				p.push(*k);
				prefixes.push((p, d.step(*st, *k).unwrap()));
			}
			for (p, s) in prefixes {
				for w in &self.w {
					let mut t = s;
					let mut v = p.clone();
					for x in w {
						v.push(*x);
						t = d.step(t, *x).unwrap();
					}
					if seen.insert(v.clone()) {
						out.push((v, d.accept[t as usize]));
					}
				}
			}
		}
		out
	}
}

/// symbols -> bytes: URI family symbols are bytes; IRI family symbols are scalar values (UTF-8).
pub fn syms_to_bytes(syms: &[u32], bytes_ty: bool, out: &mut Vec<u8>) {
	out.clear();
	if bytes_ty {
		for s in syms {
			out.push(*s as u8);
		}
	} else {
		let mut tmp = [0u8; 4];
		for s in syms {
			let c = char::from_u32(*s).expect("suite symbols are scalar values");
			out.extend_from_slice(c.encode_utf8(&mut tmp).as_bytes());
		}
	}
}
