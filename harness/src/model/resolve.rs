//! Reference resolution per RFC 3986 sections 5.2.2, 5.2.3, 5.2.4 (+ Errata 4547 for paths
//! that do not start with '/') and 5.3, transcribed from the RFC text.

use super::pathlist;
use super::syntax::{self, Parts};

/// 5.2.3 merge
pub fn merge(base: &Parts, rpath: &[u8]) -> Vec<u8> {
	if base.authority.is_some() && base.path.is_empty() {
		let mut p = b"/".to_vec();
		p.extend_from_slice(rpath);
		p
	} else {
		let mut p = match base.path.iter().rposition(|c| *c == b'/') {
			Some(i) => base.path[..=i].to_vec(),
			None => Vec::new(),
		};
		p.extend_from_slice(rpath);
		p
	}
}

/// 5.2.4 for paths starting with '/', the segment formulation with kept ".." (Errata 4547)
/// otherwise.
pub fn remove_dot_segments(path: &[u8]) -> Vec<u8> {
	if path.first() == Some(&b'/') {
		pathlist::rfc_5_2_4(path)
	} else {
		let m = pathlist::split(path);
		let out = pathlist::remove_dot_segments_list(false, &m.segs);
		if out.len() > 1 && out[0].is_empty() {
			// a relative sequence starting with an empty segment has no faithful plain text
			// (it would read as absolute): keep it relative with a '.' shield
			pathlist::shielded(false, &out)
		} else {
			pathlist::plain(false, &out)
		}
	}
}

#[derive(Clone, Copy, Debug, PartialEq, Eq)]
pub enum Branch {
	RefHasScheme,
	RefHasAuthority,
	EmptyPath,
	AbsPath,
	RelPath,
}

impl Branch {
	pub fn name(self) -> &'static str {
		match self {
			Branch::RefHasScheme => "ref_has_scheme",
			Branch::RefHasAuthority => "ref_has_authority",
			Branch::EmptyPath => "empty_path",
			Branch::AbsPath => "abs_path",
			Branch::RelPath => "rel_path",
		}
	}
}

pub struct Target {
	pub parts: Parts,
	pub branch: Branch,
	/// the path handed to remove_dot_segments did not start with '/' (Errata 4547 territory)
	pub errata_territory: bool,
}

/// 5.2.2 (strict)
pub fn resolve(base: &Parts, r: &Parts) -> Target {
	let mut t = Parts::default();
	let branch;
	let mut errata = false;
	if r.scheme.is_some() {
		branch = Branch::RefHasScheme;
		t.scheme = r.scheme.clone();
		t.authority = r.authority.clone();
		errata = !r.path.starts_with(b"/") && !r.path.is_empty();
		t.path = remove_dot_segments(&r.path);
		t.query = r.query.clone();
	} else {
		if r.authority.is_some() {
			branch = Branch::RefHasAuthority;
			t.authority = r.authority.clone();
			t.path = remove_dot_segments(&r.path);
			t.query = r.query.clone();
		} else {
			if r.path.is_empty() {
				branch = Branch::EmptyPath;
				t.path = base.path.clone();
				t.query = if r.query.is_some() { r.query.clone() } else { base.query.clone() };
			} else {
				if r.path.starts_with(b"/") {
					branch = Branch::AbsPath;
					t.path = remove_dot_segments(&r.path);
				} else {
					branch = Branch::RelPath;
					let m = merge(base, &r.path);
					errata = !m.starts_with(b"/");
					t.path = remove_dot_segments(&m);
				}
				t.query = r.query.clone();
			}
			t.authority = base.authority.clone();
		}
		t.scheme = base.scheme.clone();
	}
	t.fragment = r.fragment.clone();
	Target { parts: t, branch, errata_territory: errata }
}

/// Does the 5.3 recomposition of the target re-parse to the same components?
pub fn unambiguous(t: &Parts) -> bool {
	syntax::split(&syntax::recompose(t)) == *t
}

/// RFC 3986 section 5.4.1 / 5.4.2 examples (typed in from the RFC), base "http://a/b/c/d;p?q".
pub fn rfc_examples() -> Vec<(&'static str, &'static str)> {
	vec![
		("g:h", "g:h"),
		("g", "http://a/b/c/g"),
		("./g", "http://a/b/c/g"),
		("g/", "http://a/b/c/g/"),
		("/g", "http://a/g"),
		("//g", "http://g"),
		("?y", "http://a/b/c/d;p?y"),
		("g?y", "http://a/b/c/g?y"),
		("#s", "http://a/b/c/d;p?q#s"),
		("g#s", "http://a/b/c/g#s"),
		("g?y#s", "http://a/b/c/g?y#s"),
		(";x", "http://a/b/c/;x"),
		("g;x", "http://a/b/c/g;x"),
		("g;x?y#s", "http://a/b/c/g;x?y#s"),
		("", "http://a/b/c/d;p?q"),
		(".", "http://a/b/c/"),
		("./", "http://a/b/c/"),
		("..", "http://a/b/"),
		("../", "http://a/b/"),
		("../g", "http://a/b/g"),
		("../..", "http://a/"),
		("../../", "http://a/"),
		("../../g", "http://a/g"),
		// 5.4.2 abnormal
		("../../../g", "http://a/g"),
		("../../../../g", "http://a/g"),
		("/./g", "http://a/g"),
		("/../g", "http://a/g"),
		("g.", "http://a/b/c/g."),
		(".g", "http://a/b/c/.g"),
		("g..", "http://a/b/c/g.."),
		("..g", "http://a/b/c/..g"),
		("./../g", "http://a/b/g"),
		("./g/.", "http://a/b/c/g/"),
		("g/./h", "http://a/b/c/g/h"),
		("g/../h", "http://a/b/c/h"),
		("g;x=1/./y", "http://a/b/c/g;x=1/y"),
		("g;x=1/../y", "http://a/b/c/y"),
		("g?y/./x", "http://a/b/c/g?y/./x"),
		("g?y/../x", "http://a/b/c/g?y/../x"),
		("g#s/./x", "http://a/b/c/g#s/./x"),
		("g#s/../x", "http://a/b/c/g#s/../x"),
		("http:g", "http:g"),
	]
}

pub fn selfcheck() -> Result<u64, String> {
	let base = syntax::split(b"http://a/b/c/d;p?q");
	let mut n = 0;
	for (r, want) in rfc_examples() {
		let t = resolve(&base, &syntax::split(r.as_bytes()));
		let got = syntax::recompose(&t.parts);
		n += 1;
		if got != want.as_bytes() {
			return Err(format!("RFC 5.4 example {r:?}: model gives {:?}, RFC says {want:?}", String::from_utf8_lossy(&got)));
		}
	}
	Ok(n)
}
