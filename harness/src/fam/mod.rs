//! The two front-ends of the library (URI over bytes, IRI over str) are driven by the same
//! family-generic code: `body/*.rs` is compiled twice, once per module below, under different
//! `use` aliases.

#[derive(Clone, Copy, PartialEq, Eq, Debug, Hash, PartialOrd, Ord)]
pub enum Family {
	Uri,
	Iri,
}

impl Family {
	pub fn name(self) -> &'static str {
		match self {
			Family::Uri => "uri",
			Family::Iri => "iri",
		}
	}
	pub fn parse(s: &str) -> Option<Family> {
		match s {
			"uri" => Some(Family::Uri),
			"iri" => Some(Family::Iri),
			_ => None,
		}
	}
	pub const BOTH: [Family; 2] = [Family::Uri, Family::Iri];

	/// The families a driver pass ranges over: both, or the IRI family only during a wide pass.
	pub fn active() -> Vec<Family> {
		if IRI_ONLY.load(std::sync::atomic::Ordering::Relaxed) {
			vec![Family::Iri]
		} else {
			vec![Family::Uri, Family::Iri]
		}
	}

	pub fn set_iri_only(v: bool) {
		IRI_ONLY.store(v, std::sync::atomic::Ordering::SeqCst);
	}
}

static IRI_ONLY: std::sync::atomic::AtomicBool = std::sync::atomic::AtomicBool::new(false);

#[derive(Clone, Copy, PartialEq, Eq, Debug, Hash, PartialOrd, Ord)]
pub enum Kind {
	Ri,
	RiRef,
	Scheme,
	Authority,
	UserInfo,
	Host,
	Port,
	Path,
	Segment,
	Query,
	Fragment,
}

impl Kind {
	pub const ALL: [Kind; 11] = [
		Kind::Ri,
		Kind::RiRef,
		Kind::Scheme,
		Kind::Authority,
		Kind::UserInfo,
		Kind::Host,
		Kind::Port,
		Kind::Path,
		Kind::Segment,
		Kind::Query,
		Kind::Fragment,
	];
	pub fn name(self) -> &'static str {
		match self {
			Kind::Ri => "ri",
			Kind::RiRef => "riref",
			Kind::Scheme => "scheme",
			Kind::Authority => "authority",
			Kind::UserInfo => "userinfo",
			Kind::Host => "host",
			Kind::Port => "port",
			Kind::Path => "path",
			Kind::Segment => "segment",
			Kind::Query => "query",
			Kind::Fragment => "fragment",
		}
	}
	pub fn parse(s: &str) -> Option<Kind> {
		Kind::ALL.iter().copied().find(|k| k.name() == s)
	}
}

/// The 20 validated types: Scheme and Port are shared between the families (byte based).
pub fn validated_types() -> Vec<(Family, Kind)> {
	let mut v = Vec::new();
	for k in Kind::ALL {
		v.push((Family::Uri, k));
	}
	for k in Kind::ALL {
		if k != Kind::Scheme && k != Kind::Port {
			v.push((Family::Iri, k));
		}
	}
	v
}

/// Run one construction route under a panic guard and compare with the reference verdict.
/// `payload`: the error is an `Invalid*<T>(pub T)` whose field must be the untouched input.
#[macro_export]
macro_rules! verdict {
	($n:ident, $probs:ident, $b:ident, $expect:ident, $route:expr, $res:expr, $pl:ident) => {{
		$n += 1;
		match $crate::engine::guard(|| $res) {
			$crate::engine::Guard::Ok(Ok(v)) => {
				if !$expect {
					$probs.push(($route.to_string(), "accepted an input outside the RFC language".to_string()));
				} else if v.as_bytes() != $b {
					$probs.push(($route.to_string(), format!("accepted but text changed to {:?}", $crate::engine::lossy(v.as_bytes()))));
				}
			}
			$crate::engine::Guard::Ok(Err(_e)) => {
				if $expect {
					$probs.push(($route.to_string(), "rejected an input of the RFC language".to_string()));
				} else {
					$crate::verdict!(@$pl _e, $probs, $b, $route);
				}
			}
			$crate::engine::Guard::Panic(m) => $probs.push(($route.to_string(), format!("panic: {m}"))),
		}
	}};
	(@payload $e:ident, $probs:ident, $b:ident, $route:expr) => {{
		let back: &[u8] = AsRef::<[u8]>::as_ref(&$e.0);
		if back != $b {
			$probs.push(($route.to_string(), format!("error payload is {:?}, not the input", $crate::engine::lossy(back))));
		}
	}};
	(@nopayload $e:ident, $probs:ident, $b:ident, $route:expr) => {{}};
}

pub mod uri {
	pub use iref::uri::{
		Authority, AuthorityBuf, AuthorityMut, Fragment, FragmentBuf, Host, HostBuf, Path, PathBuf, PathMut, Port, PortBuf,
		Query, QueryBuf, Scheme, SchemeBuf, Segment, SegmentBuf, UserInfo, UserInfoBuf,
	};
	pub use iref::{Uri as Ri, UriBuf as RiBuf, UriRef as RiRef, UriRefBuf as RiRefBuf};
	pub type Str = [u8];
	pub type Owned = Vec<u8>;
	pub const FAMILY: super::Family = super::Family::Uri;
	#[inline]
	pub fn inp(b: &[u8]) -> Option<&Str> {
		Some(b)
	}
	#[inline]
	pub fn own(b: Vec<u8>) -> Option<Owned> {
		Some(b)
	}
	#[inline]
	pub fn tokens(s: &Str) -> impl Iterator<Item = u8> + '_ {
		s.iter().copied()
	}
	/// Lookups of a URI through its IRI views in sets holding many URIs.
	pub fn extra_collection_lookups(t: &[u8], bt: &std::collections::BTreeSet<RiBuf>, hs: &std::collections::HashSet<RiBuf>) -> Vec<(&'static str, bool)> {
		use std::borrow::Borrow;
		let u = Ri::new(t).ok().unwrap();
		let i: &iref::Iri = u.borrow();
		let ir: &iref::IriRef = u.borrow();
		vec![
			("BTreeSet<UriBuf>(all).contains(&Iri)", bt.contains(i)),
			("BTreeSet<UriBuf>(all).contains(&IriRef)", bt.contains(ir)),
			("HashSet<UriBuf>(all).contains(&Iri)", hs.contains(i)),
			("HashSet<UriBuf>(all).contains(&IriRef)", hs.contains(ir)),
		]
	}
	/// Borrowed-to-borrowed conversions of the URI family: (route, allocations, bytes of the result).
	pub fn borrowed_conversions(r: &RiRef) -> Vec<(&'static str, u64, Option<&[u8]>)> {
		use crate::engine::alloc;
		let mut v: Vec<(&'static str, u64, Option<&[u8]>)> = Vec::with_capacity(16);
		macro_rules! conv {
			($name:expr, $e:expr) => {{
				let c0 = alloc::count();
				let x: Option<&[u8]> = $e;
				let c1 = alloc::count();
				v.push(($name, c1 - c0, x));
			}};
		}
		conv!("UriRef::as_uri", r.as_uri().map(|x| x.as_bytes()));
		conv!("UriRef::as_iri", r.as_iri().map(|x| x.as_bytes()));
		conv!("UriRef::as_iri_ref", Some(r.as_iri_ref().as_bytes()));
		conv!("<&IriRef>::from(&UriRef)", Some(<&iref::IriRef>::from(r).as_bytes()));
		conv!("<&Uri>::try_from(&UriRef)", <&Ri>::try_from(r).ok().map(|x| x.as_bytes()));
		conv!("<&Iri>::try_from(&UriRef)", <&iref::Iri>::try_from(r).ok().map(|x| x.as_bytes()));
		if let Some(u) = r.as_uri() {
			conv!("Uri::as_uri_ref", Some(u.as_uri_ref().as_bytes()));
			conv!("Uri::as_iri", Some(u.as_iri().as_bytes()));
			conv!("Uri::as_iri_ref", Some(u.as_iri_ref().as_bytes()));
		}
		v
	}
	/// The URI family has no public constructor of a path handle over a raw buffer.
	pub fn raw_path_handle(_text: &[u8], _start: usize, _end: usize, _f: &mut dyn FnMut(&mut PathMut)) -> Option<(Vec<u8>, Vec<u8>)> {
		None
	}
	/// Comparisons with byte strings (URI family only).
	pub fn extra_str_eq(kind: super::Kind, t: &[u8], u: &str) -> Vec<(&'static str, bool)> {
		use super::Kind;
		let ub = u.as_bytes();
		let mut v = Vec::new();
		match kind {
			Kind::Ri => {
				let r = Ri::new(t).ok().unwrap();
				let o = RiBuf::new(t.to_vec()).ok().unwrap();
				v.push(("Uri==[u8]", *r == *ub));
				v.push(("Uri==[u8] (through !=)", !(*r != *ub)));
				v.push(("Uri==&[u8]", *r == ub));
				v.push(("Uri==&[u8] (through !=)", !(*r != ub)));
				v.push(("UriBuf==[u8]", o == *ub));
				v.push(("UriBuf==[u8] (through !=)", !(o != *ub)));
				v.push(("UriBuf==&[u8]", o == ub));
				v.push(("UriBuf==&[u8] (through !=)", !(o != ub)));
			}
			Kind::RiRef => {
				let r = RiRef::new(t).ok().unwrap();
				let o = RiRefBuf::new(t.to_vec()).ok().unwrap();
				v.push(("UriRef==[u8]", *r == *ub));
				v.push(("UriRef==[u8] (through !=)", !(*r != *ub)));
				v.push(("UriRef==&[u8]", *r == ub));
				v.push(("UriRef==&[u8] (through !=)", !(*r != ub)));
				v.push(("UriRefBuf==[u8]", o == *ub));
				v.push(("UriRefBuf==[u8] (through !=)", !(o != *ub)));
				v.push(("UriRefBuf==&[u8]", o == ub));
				v.push(("UriRefBuf==&[u8] (through !=)", !(o != ub)));
			}
			Kind::Path => {
				let r = Path::new(t).ok().unwrap();
				v.push(("Path==[u8]", *r == *ub));
				v.push(("Path==[u8] (through !=)", !(*r != *ub)));
				v.push(("Path==&[u8]", *r == ub));
				v.push(("Path==&[u8] (through !=)", !(*r != ub)));
			}
			_ => {}
		}
		// operands that are not UTF-8 at all (a URI is ASCII: never equal). Reported relative to the
		// expected answer for `u` so that the caller's comparison flags a wrong `true`.
		{
			let exp = t == ub;
			let as_expected = |got: bool| if got { !exp } else { exp };
			for nb in [&[0xFFu8][..], &[0xC3u8][..], &[b'a', 0xFF][..], &[0xFFu8, b'/'][..]] {
				match kind {
					Kind::Ri => {
						let r = Ri::new(t).ok().unwrap();
						let o = RiBuf::new(t.to_vec()).ok().unwrap();
						v.push(("Uri==[u8] (operand not UTF-8)", as_expected(*r == *nb)));
						v.push(("Uri==&[u8] (operand not UTF-8)", as_expected(*r == nb)));
						v.push(("UriBuf==[u8] (operand not UTF-8)", as_expected(o == *nb)));
						v.push(("UriBuf==&[u8] (operand not UTF-8)", as_expected(o == nb)));
					}
					Kind::RiRef => {
						let r = RiRef::new(t).ok().unwrap();
						let o = RiRefBuf::new(t.to_vec()).ok().unwrap();
						v.push(("UriRef==[u8] (operand not UTF-8)", as_expected(*r == *nb)));
						v.push(("UriRef==&[u8] (operand not UTF-8)", as_expected(*r == nb)));
						v.push(("UriRefBuf==[u8] (operand not UTF-8)", as_expected(o == *nb)));
						v.push(("UriRefBuf==&[u8] (operand not UTF-8)", as_expected(o == nb)));
					}
					Kind::Path => {
						let r = Path::new(t).ok().unwrap();
						v.push(("Path==[u8] (operand not UTF-8)", as_expected(*r == *nb)));
						v.push(("Path==&[u8] (operand not UTF-8)", as_expected(*r == nb)));
					}
					_ => {}
				}
			}
		}
		// comparisons with byte ARRAYS (const-generic impls): the spelling as [u8; N], N <= 8
		macro_rules! arr {
			($($n:literal)*) => {
				match ub.len() {
					$($n => {
						let a: [u8; $n] = ub.try_into().unwrap();
						match kind {
							Kind::Ri => {
								let r = Ri::new(t).ok().unwrap();
								let o = RiBuf::new(t.to_vec()).ok().unwrap();
								v.push(("Uri==[u8;N]", *r == a));
				v.push(("Uri==[u8;N] (through !=)", !(*r != a)));
								v.push(("Uri==&[u8;N]", *r == &a));
				v.push(("Uri==&[u8;N] (through !=)", !(*r != &a)));
								v.push(("UriBuf==[u8;N]", o == a));
				v.push(("UriBuf==[u8;N] (through !=)", !(o != a)));
								v.push(("UriBuf==&[u8;N]", o == &a));
				v.push(("UriBuf==&[u8;N] (through !=)", !(o != &a)));
							}
							Kind::RiRef => {
								let r = RiRef::new(t).ok().unwrap();
								let o = RiRefBuf::new(t.to_vec()).ok().unwrap();
								v.push(("UriRef==[u8;N]", *r == a));
				v.push(("UriRef==[u8;N] (through !=)", !(*r != a)));
								v.push(("UriRef==&[u8;N]", *r == &a));
				v.push(("UriRef==&[u8;N] (through !=)", !(*r != &a)));
								v.push(("UriRefBuf==[u8;N]", o == a));
				v.push(("UriRefBuf==[u8;N] (through !=)", !(o != a)));
								v.push(("UriRefBuf==&[u8;N]", o == &a));
				v.push(("UriRefBuf==&[u8;N] (through !=)", !(o != &a)));
							}
							Kind::Path => {
								let r = Path::new(t).ok().unwrap();
								v.push(("Path==[u8;N]", *r == a));
				v.push(("Path==[u8;N] (through !=)", !(*r != a)));
								v.push(("Path==&[u8;N]", *r == &a));
				v.push(("Path==&[u8;N] (through !=)", !(*r != &a)));
							}
							_ => {}
						}
					})*
					_ => {}
				}
			};
		}
		arr!(0 1 2 3 4 5 6 7 8);
		v
	}
	/// Borrow views that only exist in the URI family: a URI seen as an IRI / IRI reference.
	pub fn extra_views(t: &[u8], probs: &mut Vec<(String, String)>) {
		use std::borrow::Borrow;
		use std::collections::{BTreeSet, HashSet};
		use std::hash::{Hash, Hasher};
		fn h<T: ?Sized + Hash>(t: &T) -> u64 {
			let mut s = Fnv(0xcbf29ce484222325);
			t.hash(&mut s);
			s.finish()
		}
		let owned = RiBuf::new(t.to_vec()).ok().unwrap();
		let uri: &Ri = &owned;
		let as_iri: &iref::Iri = uri.borrow();
		let as_iri_ref: &iref::IriRef = uri.borrow();
		let owned_as_iri: &iref::Iri = owned.borrow();
		let owned_as_iri_ref: &iref::IriRef = owned.borrow();
		let hv = h(&owned);
		for (name, x) in [("Uri->Iri", h(as_iri)), ("Uri->IriRef", h(as_iri_ref)), ("UriBuf->Iri", h(owned_as_iri)), ("UriBuf->IriRef", h(owned_as_iri_ref))] {
			if x != hv {
				probs.push((format!("hash:{name}"), format!("hash(UriBuf) {hv:x} != hash({name}) {x:x}")));
			}
		}
		fn hc<T: ?Sized + Hash>(t: &T) -> u64 {
			let mut s = Chunky(0xcbf29ce484222325);
			t.hash(&mut s);
			s.finish()
		}
		let hv = hc(&owned);
		for (name, x) in [("Uri->Iri", hc(as_iri)), ("Uri->IriRef", hc(as_iri_ref)), ("UriBuf->Iri", hc(owned_as_iri)), ("UriBuf->IriRef", hc(owned_as_iri_ref))] {
			if x != hv {
				probs.push((format!("chunk-sensitive-hash:{name}"), format!("hash(UriBuf) {hv:x} != hash({name}) {x:x}")));
			}
		}
		let mut hs: HashSet<RiBuf> = HashSet::new();
		hs.insert(owned.clone());
		if !hs.contains(as_iri) {
			probs.push(("HashSet<UriBuf>.contains(&Iri)".into(), "not found".into()));
		}
		if !hs.contains(as_iri_ref) {
			probs.push(("HashSet<UriBuf>.contains(&IriRef)".into(), "not found".into()));
		}
		let mut bs: BTreeSet<RiBuf> = BTreeSet::new();
		bs.insert(owned.clone());
		if !bs.contains(as_iri) {
			probs.push(("BTreeSet<UriBuf>.contains(&Iri)".into(), "not found".into()));
		}
		if !bs.contains(as_iri_ref) {
			probs.push(("BTreeSet<UriBuf>.contains(&IriRef)".into(), "not found".into()));
		}
	}
	/// Routes that only exist for ASCII byte-string types: `str` / `String` inputs.
	pub fn extra_routes(kind: super::Kind, b: &[u8], expect: bool, probs: &mut Vec<(String, String)>, n: &mut u64) {
		let s = match std::str::from_utf8(b) {
			Ok(s) => s,
			Err(_) => return,
		};
		let mut k = 0u64;
		macro_rules! r {
			($T:ident, $TBuf:ident) => {{
				crate::verdict!(k, probs, b, expect, "new(&str)", $T::new(s), payload);
				crate::verdict!(k, probs, b, expect, "try_from(&str)", <&$T>::try_from(s), payload);
				crate::verdict!(k, probs, b, expect, "Buf::try_from(String)", $TBuf::try_from(s.to_string()), payload);
			}};
		}
		use super::Kind;
		match kind {
			Kind::Ri => r!(Ri, RiBuf),
			Kind::RiRef => r!(RiRef, RiRefBuf),
			Kind::Scheme => r!(Scheme, SchemeBuf),
			Kind::Authority => r!(Authority, AuthorityBuf),
			Kind::UserInfo => r!(UserInfo, UserInfoBuf),
			Kind::Host => r!(Host, HostBuf),
			Kind::Port => r!(Port, PortBuf),
			Kind::Path => r!(Path, PathBuf),
			Kind::Segment => r!(Segment, SegmentBuf),
			Kind::Query => r!(Query, QueryBuf),
			Kind::Fragment => r!(Fragment, FragmentBuf),
		}
		// byte inputs for Scheme / Port (their "native" branch is skipped in the generic code)
		match kind {
			Kind::Scheme => {
				crate::verdict!(k, probs, b, expect, "new(&[u8])", Scheme::new(b), payload);
				crate::verdict!(k, probs, b, expect, "try_from(&[u8])", <&Scheme>::try_from(b), payload);
				crate::verdict!(k, probs, b, expect, "Buf::new(Vec<u8>)", SchemeBuf::new(b.to_vec()), payload);
				crate::verdict!(k, probs, b, expect, "Buf::try_from(Vec<u8>)", SchemeBuf::try_from(b.to_vec()), payload);
			}
			Kind::Port => {
				crate::verdict!(k, probs, b, expect, "new(&[u8])", Port::new(b), payload);
				crate::verdict!(k, probs, b, expect, "try_from(&[u8])", <&Port>::try_from(b), payload);
				crate::verdict!(k, probs, b, expect, "Buf::new(Vec<u8>)", PortBuf::new(b.to_vec()), payload);
				crate::verdict!(k, probs, b, expect, "Buf::try_from(Vec<u8>)", PortBuf::try_from(b.to_vec()), payload);
			}
			_ => {}
		}
		*n += k;
	}
	include!("body/mod.rs");
}

pub mod iri {
	pub use iref::iri::{
		Authority, AuthorityBuf, AuthorityMut, Fragment, FragmentBuf, Host, HostBuf, Path, PathBuf, PathMut, Port, PortBuf,
		Query, QueryBuf, Scheme, SchemeBuf, Segment, SegmentBuf, UserInfo, UserInfoBuf,
	};
	pub use iref::{Iri as Ri, IriBuf as RiBuf, IriRef as RiRef, IriRefBuf as RiRefBuf};
	pub type Str = str;
	pub type Owned = String;
	pub const FAMILY: super::Family = super::Family::Iri;
	#[inline]
	pub fn inp(b: &[u8]) -> Option<&Str> {
		std::str::from_utf8(b).ok()
	}
	#[inline]
	pub fn own(b: Vec<u8>) -> Option<Owned> {
		String::from_utf8(b).ok()
	}
	#[inline]
	pub fn tokens(s: &Str) -> impl Iterator<Item = char> + '_ {
		s.chars()
	}
	pub fn extra_views(_t: &[u8], _probs: &mut Vec<(String, String)>) {}
	pub fn extra_collection_lookups(_t: &[u8], _bt: &std::collections::BTreeSet<RiBuf>, _hs: &std::collections::HashSet<RiBuf>) -> Vec<(&'static str, bool)> {
		Vec::new()
	}
	/// Borrowed-to-borrowed conversions of the IRI family: (route, allocations, bytes of the result).
	pub fn borrowed_conversions(r: &RiRef) -> Vec<(&'static str, u64, Option<&[u8]>)> {
		use crate::engine::alloc;
		let mut v: Vec<(&'static str, u64, Option<&[u8]>)> = Vec::with_capacity(16);
		macro_rules! conv {
			($name:expr, $e:expr) => {{
				let c0 = alloc::count();
				let x: Option<&[u8]> = $e;
				let c1 = alloc::count();
				v.push(($name, c1 - c0, x));
			}};
		}
		conv!("IriRef::as_iri", r.as_iri().map(|x| x.as_bytes()));
		conv!("IriRef::as_uri", r.as_uri().map(|x| x.as_bytes()));
		conv!("IriRef::as_uri_ref", r.as_uri_ref().map(|x| x.as_bytes()));
		conv!("<&Iri>::try_from(&IriRef)", <&Ri>::try_from(r).ok().map(|x| x.as_bytes()));
		conv!("<&Uri>::try_from(&IriRef)", <&iref::Uri>::try_from(r).ok().map(|x| x.as_bytes()));
		conv!("<&UriRef>::try_from(&IriRef)", <&iref::UriRef>::try_from(r).ok().map(|x| x.as_bytes()));
		if let Some(i) = r.as_iri() {
			conv!("Iri::as_iri_ref", Some(i.as_iri_ref().as_bytes()));
			conv!("<&IriRef>::from(&Iri)", Some(<&RiRef>::from(i).as_bytes()));
			conv!("Iri::as_uri", i.as_uri().map(|x| x.as_bytes()));
			conv!("Iri::as_uri_ref", i.as_uri_ref().map(|x| x.as_bytes()));
			conv!("<&Uri>::try_from(&Iri)", <&iref::Uri>::try_from(i).ok().map(|x| x.as_bytes()));
			conv!("<&UriRef>::try_from(&Iri)", <&iref::UriRef>::try_from(i).ok().map(|x| x.as_bytes()));
		}
		v
	}
	/// `iri::PathMut::new` (public, unsafe): a handle over the path range of a raw buffer holding a
	/// valid IRI reference. Returns (buffer text, text the handle derefs to) after `f`.
	pub fn raw_path_handle(text: &[u8], start: usize, end: usize, f: &mut dyn FnMut(&mut PathMut)) -> Option<(Vec<u8>, Vec<u8>)> {
		let mut buf = text.to_vec();
		let view = {
			let mut h = unsafe { PathMut::new(&mut buf, start, end) };
			f(&mut h);
			h.as_bytes().to_vec()
		};
		Some((buf, view))
	}
	/// Comparisons of the owned IRI path with strings (IRI family only).
	pub fn extra_str_eq(kind: super::Kind, t: &[u8], u: &str) -> Vec<(&'static str, bool)> {
		let mut v = Vec::new();
		if kind == super::Kind::Path {
			let o = PathBuf::new(std::str::from_utf8(t).unwrap().to_string()).ok().unwrap();
			v.push(("PathBuf==str", o == *u));
				v.push(("PathBuf==str (through !=)", !(o != *u)));
			v.push(("PathBuf==&str", o == u));
				v.push(("PathBuf==&str (through !=)", !(o != u)));
			v.push(("PathBuf==String", o == u.to_string()));
				v.push(("PathBuf==String (through !=)", !(o != u.to_string())));
		}
		v
	}
	/// Routes that only exist in the IRI family: the from-bytes constructors.
	pub fn extra_routes(kind: super::Kind, b: &[u8], expect: bool, probs: &mut Vec<(String, String)>, n: &mut u64) {
		let mut k = 0u64;
		use super::Kind;
		match kind {
			Kind::Ri => {
				crate::verdict!(k, probs, b, expect, "IriBuf::from_vec", RiBuf::from_vec(b.to_vec()), payload);
			}
			Kind::RiRef => {
				crate::verdict!(k, probs, b, expect, "IriRefBuf::from_vec", RiRefBuf::from_vec(b.to_vec()), payload);
			}
			_ => {}
		}
		*n += k;
	}
	include!("body/mod.rs");
}

/// Dispatch a family-generic function by run-time family value.
#[macro_export]
macro_rules! by_family {
	($fam:expr, $f:ident ( $($a:expr),* )) => {
		match $fam {
			$crate::fam::Family::Uri => $crate::fam::uri::$f($($a),*),
			$crate::fam::Family::Iri => $crate::fam::iri::$f($($a),*),
		}
	};
}
