//! The two front-ends of the library (URI over bytes, IRI over str) are driven by the same
//! family-generic code: `body/*.rs` is compiled twice, once per module below, under different
//! `use` aliases.

#[derive(Clone, Copy, PartialEq, Eq, Debug, Hash, PartialOrd, Ord)]
pub enum Family {
	Uri,
	Iri,
}

impl Family {
	pub fn name(self) -> &'static str {
		match self {
			Family::Uri => "uri",
			Family::Iri => "iri",
		}
	}
	pub fn parse(s: &str) -> Option<Family> {
		match s {
			"uri" => Some(Family::Uri),
			"iri" => Some(Family::Iri),
			_ => None,
		}
	}
	pub const BOTH: [Family; 2] = [Family::Uri, Family::Iri];
}

#[derive(Clone, Copy, PartialEq, Eq, Debug, Hash, PartialOrd, Ord)]
pub enum Kind {
	Ri,
	RiRef,
	Scheme,
	Authority,
	UserInfo,
	Host,
	Port,
	Path,
	Segment,
	Query,
	Fragment,
}

impl Kind {
	pub const ALL: [Kind; 11] = [
		Kind::Ri,
		Kind::RiRef,
		Kind::Scheme,
		Kind::Authority,
		Kind::UserInfo,
		Kind::Host,
		Kind::Port,
		Kind::Path,
		Kind::Segment,
		Kind::Query,
		Kind::Fragment,
	];
	pub fn name(self) -> &'static str {
		match self {
			Kind::Ri => "ri",
			Kind::RiRef => "riref",
			Kind::Scheme => "scheme",
			Kind::Authority => "authority",
			Kind::UserInfo => "userinfo",
			Kind::Host => "host",
			Kind::Port => "port",
			Kind::Path => "path",
			Kind::Segment => "segment",
			Kind::Query => "query",
			Kind::Fragment => "fragment",
		}
	}
	pub fn parse(s: &str) -> Option<Kind> {
		Kind::ALL.iter().copied().find(|k| k.name() == s)
	}
}

/// The 20 validated types: Scheme and Port are shared between the families (byte based).
pub fn validated_types() -> Vec<(Family, Kind)> {
	let mut v = Vec::new();
	for k in Kind::ALL {
		v.push((Family::Uri, k));
	}
	for k in Kind::ALL {
		if k != Kind::Scheme && k != Kind::Port {
			v.push((Family::Iri, k));
		}
	}
	v
}

pub mod uri {
	pub use iref::uri::{
		Authority, AuthorityBuf, AuthorityMut, Fragment, FragmentBuf, Host, HostBuf, Path, PathBuf, PathMut, Port, PortBuf,
		Query, QueryBuf, Scheme, SchemeBuf, Segment, SegmentBuf, UserInfo, UserInfoBuf,
	};
	pub use iref::{Uri as Ri, UriBuf as RiBuf, UriRef as RiRef, UriRefBuf as RiRefBuf};
	pub type Str = [u8];
	pub type Owned = Vec<u8>;
	pub const FAMILY: super::Family = super::Family::Uri;
	#[inline]
	pub fn inp(b: &[u8]) -> Option<&Str> {
		Some(b)
	}
	#[inline]
	pub fn own(b: Vec<u8>) -> Option<Owned> {
		Some(b)
	}
	include!("body/mod.rs");
}

pub mod iri {
	pub use iref::iri::{
		Authority, AuthorityBuf, AuthorityMut, Fragment, FragmentBuf, Host, HostBuf, Path, PathBuf, PathMut, Port, PortBuf,
		Query, QueryBuf, Scheme, SchemeBuf, Segment, SegmentBuf, UserInfo, UserInfoBuf,
	};
	pub use iref::{Iri as Ri, IriBuf as RiBuf, IriRef as RiRef, IriRefBuf as RiRefBuf};
	pub type Str = str;
	pub type Owned = String;
	pub const FAMILY: super::Family = super::Family::Iri;
	#[inline]
	pub fn inp(b: &[u8]) -> Option<&Str> {
		std::str::from_utf8(b).ok()
	}
	#[inline]
	pub fn own(b: Vec<u8>) -> Option<Owned> {
		String::from_utf8(b).ok()
	}
	include!("body/mod.rs");
}

/// Dispatch a family-generic function by run-time family value.
#[macro_export]
macro_rules! by_family {
	($fam:expr, $f:ident ( $($a:expr),* )) => {
		match $fam {
			$crate::fam::Family::Uri => $crate::fam::uri::$f($($a),*),
			$crate::fam::Family::Iri => $crate::fam::iri::$f($($a),*),
		}
	};
}
