// C10: path editing has list semantics and touches nothing but the path.

use crate::model::pathops::{self, Op};

fn seg_of(b: &[u8]) -> &Segment {
	Segment::new(inp(b).expect("segment argument is UTF-8")).ok().expect("segment argument is valid")
}

pub fn apply_pathmut(h: &mut PathMut, op: &Op) {
	match op {
		Op::Push(s) => h.push(seg_of(s)),
		Op::Pop => h.pop(),
		Op::Clear => h.clear(),
		Op::SymPush(s) => h.symbolic_push(seg_of(s)),
		Op::SymAppend(p) => {
			let path = Path::new(inp(p).expect("utf8")).ok().expect("valid path argument");
			h.symbolic_append(path.segments())
		}
		Op::Normalize => h.normalize(),
	}
}

pub fn apply_pathbuf(h: &mut PathBuf, op: &Op) {
	match op {
		Op::Push(s) => h.push(seg_of(s)),
		Op::Pop => h.pop(),
		Op::Clear => h.clear(),
		Op::SymPush(s) => h.symbolic_push(seg_of(s)),
		Op::SymAppend(p) => {
			let path = Path::new(inp(p).expect("utf8")).ok().expect("valid path argument");
			h.symbolic_append(path.segments())
		}
		Op::Normalize => h.normalize(),
	}
}

fn compose(prefix: &[u8], path: &[u8], suffix: &[u8]) -> Vec<u8> {
	let mut t = prefix.to_vec();
	t.extend_from_slice(path);
	t.extend_from_slice(suffix);
	t
}

pub fn c10_input(prefix: &[u8], suffix: &[u8], init: &[u8], history: &[Op], op: &Op) -> Value {
	let mut ops: Vec<Value> = history.iter().map(|o| o.to_json()).collect();
	ops.push(op.to_json());
	json!({"fam": fam_name(), "prefix": bytes_json(prefix), "suffix": bytes_json(suffix), "initial_path": bytes_json(init), "ops": ops})
}

/// Does `after` (a path text) realise `op` applied to `before`, per the list model?
pub fn c10_judge(before: &[u8], after: &[u8], op: &Op, follows_authority: bool) -> Result<(), String> {
	let (abs_b, rds) = pathops::readings(before);
	let abs_a = after.first() == Some(&b'/');
	let after_list = pathlist::split(after);
	// absoluteness is kept; a path that follows an authority is absolute as soon as it has segments
	let abs_ok = if follows_authority {
		abs_a == abs_b || abs_a || after_list.segs.is_empty()
	} else {
		abs_a == abs_b
	};
	if !abs_ok {
		return Err(format!("absoluteness changed: {} -> {}", abs_b, abs_a));
	}
	if follows_authority && !abs_a && !after_list.segs.is_empty() {
		return Err("relative non-empty path after an authority".to_string());
	}
	let mut wanted = Vec::new();
	for r in &rds {
		for e in pathops::step(abs_b, r, op, follows_authority) {
			if pathlist::accepts(after, abs_a, &e) {
				return Ok(());
			}
			wanted.push(format!("{:?}", e.iter().map(|x| lossy(x)).collect::<Vec<_>>()));
		}
	}
	wanted.sort();
	wanted.dedup();
	Err(format!("a rendering of one of {}", wanted.join(" | ")))
}

/// Features from the model only.
fn c10_features(v: Violation, before: &[u8], op: &Op, follows_authority: bool, has_scheme: bool, one_handle_step: usize) -> Violation {
	let m = pathlist::split(before);
	let arg_kind = match op {
		Op::Push(s) | Op::SymPush(s) => {
			if s.is_empty() {
				"empty"
			} else if s == b"." || s == b".." {
				"dot"
			} else if s.contains(&b':') {
				"colon"
			} else {
				"plain"
			}
		}
		_ => "-",
	};
	v.feat("op", op.name())
		.feat("arg", arg_kind)
		.feat("path_has_segments", !m.segs.is_empty())
		.feat("path_abs", m.abs)
		.feat("follows_authority", follows_authority)
		.feat("has_scheme", has_scheme)
		.feat("first_call_on_handle", one_handle_step == 0)
}

/// One transition: `op` applied in state `before` (reached from `init` by `history`) inside
/// the reference prefix + path + suffix. Returns the new path text when every check passed.
pub fn c10_step(
	prefix: &[u8],
	suffix: &[u8],
	init: &[u8],
	history: &[Op],
	before: &[u8],
	op: &Op,
	out: &mut Vec<Violation>,
) -> Option<Vec<u8>> {
	let ctx_parts = syntax::split(&compose(prefix, b"", suffix));
	let follows_authority = ctx_parts.authority.is_some();
	let has_scheme = ctx_parts.scheme.is_some();
	let input = c10_input(prefix, suffix, init, history, op);
	let mk = |check: &str, what: &str| {
		c10_features(Violation::new("C10", check, what, input.clone()), before, op, follows_authority, has_scheme, history.len())
	};
	// (1) fresh handle on the observed state
	let fresh = guard(|| {
		let mut buf = rirefbuf_of(&compose(prefix, before, suffix)).expect("state is a valid reference");
		let view = {
			let mut h = buf.path_mut();
			apply_pathmut(&mut h, op);
			h.as_bytes().to_vec()
		};
		(buf.as_bytes().to_vec(), view)
	});
	let (text, view) = match fresh {
		Guard::Ok(x) => x,
		Guard::Panic(pm) => {
			out.push(mk("embedded", "panic").feat("panic_at", panic_site(&pm)).obs(format!("panic: {pm}")).exp("no panic"));
			return None;
		}
	};
	let mut ok = true;
	if !valid(Kind::RiRef, &text) {
		out.push(mk("embedded", "valid").obs(format!("{:?}", lossy(&text))).exp("a valid reference"));
		return None;
	}
	let after = syntax::split(&text);
	if after.scheme != ctx_parts.scheme || after.authority != ctx_parts.authority || after.query != ctx_parts.query || after.fragment != ctx_parts.fragment {
		out.push(mk("embedded", "frame").obs(format!("{:?}: {}", lossy(&text), fmt_parts(&after))).exp(format!("scheme, authority, query, fragment of {:?} unchanged", lossy(&compose(prefix, before, suffix)))));
		return None;
	}
	if after.path != view {
		out.push(mk("embedded", "handle-view").obs(format!("handle derefs to {:?}, buffer path is {:?}", lossy(&view), lossy(&after.path))).exp("identical"));
		ok = false;
	}
	if let Err(want) = c10_judge(before, &after.path, op, follows_authority) {
		out.push(mk("embedded", "list-semantics").obs(format!("{:?} -> {:?}", lossy(before), lossy(&after.path))).exp(want));
		ok = false;
	}
	// (1b) the same step through a handle built over the raw buffer (where the family has one)
	{
		let whole = compose(prefix, before, suffix);
		let (ps, pe) = syntax::split_ranges(&whole).path;
		match guard(|| raw_path_handle(&whole, ps, pe, &mut |h| apply_pathmut(h, op))) {
			Guard::Ok(Some((raw, v))) => {
				if raw != text || v != view {
					out.push(
						mk("raw-handle", "differs-from-path_mut")
							.obs(format!("buffer {:?} view {:?}", lossy(&raw), lossy(&v)))
							.exp(format!("buffer {:?} view {:?}", lossy(&text), lossy(&view))),
					);
					ok = false;
				}
			}
			Guard::Ok(None) => (),
			Guard::Panic(pm) => {
				out.push(mk("raw-handle", "panic").feat("panic_at", panic_site(&pm)).obs(format!("panic: {pm}")).exp("no panic"));
				ok = false;
			}
		}
	}
	// (2) the same step as the last of a sequence through ONE handle
	if !history.is_empty() {
		let one = guard(|| {
			let mut buf = rirefbuf_of(&compose(prefix, init, suffix)).expect("initial state is valid");
			let view = {
				let mut h = buf.path_mut();
				for o in history {
					apply_pathmut(&mut h, o);
				}
				apply_pathmut(&mut h, op);
				h.as_bytes().to_vec()
			};
			(buf.as_bytes().to_vec(), view)
		});
		match one {
			Guard::Ok((t1, v1)) => {
				if t1 != text || v1 != view {
					out.push(
						mk("one-handle", "differs-from-fresh-handle")
							.obs(format!("buffer {:?} view {:?}", lossy(&t1), lossy(&v1)))
							.exp(format!("buffer {:?} view {:?}", lossy(&text), lossy(&view))),
					);
					ok = false;
				}
			}
			Guard::Panic(pm) => {
				out.push(mk("one-handle", "panic").feat("panic_at", panic_site(&pm)).obs(format!("panic: {pm}")).exp("no panic"));
				ok = false;
			}
		}
	}
	// (3) stand-alone path buffer
	let sa = guard(|| {
		let mut pb = pathbuf_of(before).expect("state path is a valid path");
		apply_pathbuf(&mut pb, op);
		let t = pb.as_bytes().to_vec();
		// and through as_path_mut
		let mut pb2 = pathbuf_of(before).unwrap();
		let v2 = {
			let mut h = pb2.as_path_mut();
			apply_pathmut(&mut h, op);
			h.as_bytes().to_vec()
		};
		(t, v2, pb2.as_bytes().to_vec())
	});
	match sa {
		Guard::Ok((t, v2, t2)) => {
			if !valid(Kind::Path, &t) {
				out.push(mk("standalone", "valid").obs(format!("{:?}", lossy(&t))).exp("a valid path"));
				ok = false;
			} else if let Err(want) = c10_judge(before, &t, op, false) {
				out.push(mk("standalone", "list-semantics").obs(format!("{:?} -> {:?}", lossy(before), lossy(&t))).exp(want));
				ok = false;
			} else if t != t2 || v2 != t2 {
				out.push(mk("standalone", "as_path_mut-differs").obs(format!("{:?} / view {:?}", lossy(&t2), lossy(&v2))).exp(format!("{:?}", lossy(&t))));
				ok = false;
			} else if !follows_authority {
				// same effect stand-alone and in place: some reading in common
				let (a1, r1) = pathops::readings(&t);
				let (a2, r2) = pathops::readings(&after.path);
				let lenient_eq = |x: &Vec<Vec<u8>>, y: &Vec<Vec<u8>>| x == y || (x.len() <= 1 && y.len() <= 1 && x.iter().all(|s| s.is_empty()) && y.iter().all(|s| s.is_empty()));
				if a1 != a2 || !r1.iter().any(|x| r2.iter().any(|y| lenient_eq(x, y))) {
					out.push(mk("standalone", "differs-from-in-place").obs(format!("stand-alone {:?}, in place {:?}", lossy(&t), lossy(&after.path))).exp("same segment sequence"));
					ok = false;
				}
			}
		}
		Guard::Panic(pm) => {
			out.push(mk("standalone", "panic").feat("panic_at", panic_site(&pm)).obs(format!("panic: {pm}")).exp("no panic"));
			ok = false;
		}
	}
	if ok {
		Some(after.path)
	} else {
		None
	}
}

pub fn c10_replay(input: &Value) -> Vec<Violation> {
	let mut out = Vec::new();
	let (prefix, suffix, init) = match (json_bytes(&input["prefix"]), json_bytes(&input["suffix"]), json_bytes(&input["initial_path"])) {
		(Some(a), Some(b), Some(c)) => (a, b, c),
		_ => return out,
	};
	let ops: Vec<Op> = input["ops"].as_array().map(|a| a.iter().filter_map(Op::from_json).collect()).unwrap_or_default();
	if ops.is_empty() {
		return out;
	}
	// re-walk the history with fresh handles to find the state before the last op
	let mut cur = init.clone();
	for (i, op) in ops.iter().enumerate() {
		let mut tmp = Vec::new();
		let r = c10_step(&prefix, &suffix, &init, &ops[..i], &cur, op, &mut tmp);
		if i + 1 == ops.len() {
			out.extend(tmp);
		} else {
			match r {
				Some(p) => cur = p,
				None => {
					// an earlier step already violates: report that one
					out.extend(tmp);
					return out;
				}
			}
		}
	}
	out
}
