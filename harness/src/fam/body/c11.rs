// C11: authority editing through the in-place handle.

#[derive(Clone, Debug, PartialEq, Eq, Hash, PartialOrd, Ord)]
pub enum AOp {
	SetUserinfo(Option<Vec<u8>>),
	SetHost(Vec<u8>),
	SetPort(Option<Vec<u8>>),
}

impl AOp {
	pub fn name(&self) -> &'static str {
		match self {
			AOp::SetUserinfo(_) => "set_userinfo",
			AOp::SetHost(_) => "set_host",
			AOp::SetPort(_) => "set_port",
		}
	}
	pub fn to_json(&self) -> Value {
		use crate::engine::opt_bytes_json;
		match self {
			AOp::SetUserinfo(u) => json!(["set_userinfo", opt_bytes_json(u)]),
			AOp::SetHost(h) => json!(["set_host", bytes_json(h)]),
			AOp::SetPort(p) => json!(["set_port", opt_bytes_json(p)]),
		}
	}
	pub fn from_json(v: &Value) -> Option<AOp> {
		use crate::engine::json_opt_bytes;
		let a = v.as_array()?;
		Some(match a.first()?.as_str()? {
			"set_userinfo" => AOp::SetUserinfo(json_opt_bytes(a.get(1)?)?),
			"set_host" => AOp::SetHost(json_bytes(a.get(1)?)?),
			"set_port" => AOp::SetPort(json_opt_bytes(a.get(1)?)?),
			_ => return None,
		})
	}
	/// record model
	pub fn apply(&self, p: &syntax::AuthParts) -> syntax::AuthParts {
		let mut q = p.clone();
		match self {
			AOp::SetUserinfo(u) => q.userinfo = u.clone(),
			AOp::SetHost(h) => q.host = h.clone(),
			AOp::SetPort(pt) => q.port = pt.clone(),
		}
		q
	}
}

fn apply_authmut(h: &mut AuthorityMut, op: &AOp) {
	match op {
		AOp::SetUserinfo(u) => {
			let ui: Option<&UserInfo> = u.as_ref().map(|b| UserInfo::new(inp(b).expect("utf8")).ok().expect("valid user info argument"));
			h.set_userinfo(ui)
		}
		AOp::SetHost(hs) => h.set_host(Host::new(inp(hs).expect("utf8")).ok().expect("valid host argument")),
		AOp::SetPort(p) => {
			let pt: Option<&Port> = p.as_ref().map(|b| Port::new(b).ok().expect("valid port argument"));
			h.set_port(pt)
		}
	}
}

/// Observation of a handle: (as_authority text, deref text) - read twice to catch read side effects.
fn observe_authmut(h: &AuthorityMut) -> (Vec<u8>, Vec<u8>) {
	let a = h.as_authority().as_bytes().to_vec();
	let d: &Authority = &*h;
	(a, d.as_bytes().to_vec())
}

pub fn c11_input(prefix: &[u8], rest: &[u8], init: &[u8], history: &[AOp], op: &AOp, owned_kind: &str) -> Value {
	let mut ops: Vec<Value> = history.iter().map(|o| o.to_json()).collect();
	ops.push(op.to_json());
	json!({"fam": fam_name(), "prefix": bytes_json(prefix), "rest": bytes_json(rest), "initial_authority": bytes_json(init), "ops": ops, "buffer_type": owned_kind})
}

fn c11_features(v: Violation, before: &syntax::AuthParts, op: &AOp, step_on_handle: usize) -> Violation {
	let arg_present = match op {
		AOp::SetUserinfo(u) => u.is_some(),
		AOp::SetPort(p) => p.is_some(),
		AOp::SetHost(_) => true,
	};
	auth_features(v, before).feat("op", op.name()).feat("arg_present", arg_present).feat("first_call_on_handle", step_on_handle == 0)
}

fn with_authority_mut<R>(text: &[u8], use_ri: bool, f: impl FnOnce(&mut AuthorityMut) -> R) -> Option<(R, Vec<u8>)> {
	if use_ri {
		let mut b = ribuf_of(text)?;
		let r = {
			let mut h = b.authority_mut()?;
			f(&mut h)
		};
		Some((r, b.as_bytes().to_vec()))
	} else {
		let mut b = rirefbuf_of(text)?;
		let r = {
			let mut h = b.authority_mut()?;
			f(&mut h)
		};
		Some((r, b.as_bytes().to_vec()))
	}
}

/// A handle built by the public unsafe constructor over the authority range of a raw buffer.
fn with_raw_authority_mut<R>(text: &[u8], start: usize, end: usize, f: impl FnOnce(&mut AuthorityMut) -> R) -> (R, Vec<u8>) {
	let mut buf = text.to_vec();
	let r = {
		let mut h = unsafe { AuthorityMut::new(&mut buf, start, end) };
		f(&mut h)
	};
	(r, buf)
}

/// One transition. Buffer = prefix + authority + rest (prefix ends with "//").
/// Returns the new authority text when every check passed.
pub fn c11_step(prefix: &[u8], rest: &[u8], init: &[u8], history: &[AOp], before: &[u8], op: &AOp, out: &mut Vec<Violation>) -> Option<Vec<u8>> {
	let bparts = syntax::split_authority(before);
	let want_parts = op.apply(&bparts);
	let want_auth = syntax::recompose_authority(&want_parts);
	let mut ok = true;
	let use_ri_options: &[bool] = if prefix.len() > 2 { &[false, true] } else { &[false] };
	for use_ri in use_ri_options {
		let kind = if *use_ri { "RiBuf" } else { "RiRefBuf" };
		let input = c11_input(prefix, rest, init, history, op, kind);
		let mk = |check: &str, what: &str| c11_features(Violation::new("C11", check, what, input.clone()), &bparts, op, history.len()).feat("buffer_type", kind);
		let mut want_text = prefix.to_vec();
		want_text.extend_from_slice(&want_auth);
		want_text.extend_from_slice(rest);
		// (1) fresh handle
		let mut cur_text = prefix.to_vec();
		cur_text.extend_from_slice(before);
		cur_text.extend_from_slice(rest);
		let fresh = guard(|| {
			with_authority_mut(&cur_text, *use_ri, |h| {
				apply_authmut(h, op);
				let o1 = observe_authmut(h);
				let o2 = observe_authmut(h);
				(o1, o2)
			})
		});
		match fresh {
			Guard::Ok(Some((((a1, d1), (a2, d2)), text))) => {
				if text != want_text {
					out.push(mk("fresh-handle", "buffer").obs(format!("{:?}", lossy(&text))).exp(format!("{:?}", lossy(&want_text))));
					ok = false;
				}
				if a1 != want_auth || d1 != want_auth || a2 != want_auth || d2 != want_auth {
					out.push(mk("fresh-handle", "handle-view").obs(format!("as_authority {:?}, deref {:?}", lossy(&a1), lossy(&d1))).exp(format!("{:?}", lossy(&want_auth))));
					ok = false;
				}
			}
			Guard::Ok(None) => {
				out.push(mk("fresh-handle", "no-handle").obs("buffer rejected or authority_mut() == None").exp("a handle on the authority"));
				ok = false;
			}
			Guard::Panic(pm) => {
				out.push(mk("fresh-handle", "panic").feat("panic_at", panic_site(&pm)).obs(format!("panic: {pm}")).exp("no panic"));
				ok = false;
			}
		}
		// (1b) a handle built over the raw buffer (AuthorityMut::new), fresh and - below - re-used
		if !*use_ri {
			let (st, en) = (prefix.len(), prefix.len() + before.len());
			let raw = guard(|| {
				with_raw_authority_mut(&cur_text, st, en, |h| {
					apply_authmut(h, op);
					observe_authmut(h)
				})
			});
			match raw {
				Guard::Ok(((a1, d1), text)) => {
					if text != want_text || a1 != want_auth || d1 != want_auth {
						out.push(
							mk("raw-handle", "buffer-or-view")
								.obs(format!("buffer {:?}, as_authority {:?}, deref {:?}", lossy(&text), lossy(&a1), lossy(&d1)))
								.exp(format!("buffer {:?}, authority {:?}", lossy(&want_text), lossy(&want_auth))),
						);
						ok = false;
					}
				}
				Guard::Panic(pm) => {
					out.push(mk("raw-handle", "panic").feat("panic_at", panic_site(&pm)).obs(format!("panic: {pm}")).exp("no panic"));
					ok = false;
				}
			}
		}
		// (2) one handle through the whole history
		if !history.is_empty() {
			let mut init_text = prefix.to_vec();
			init_text.extend_from_slice(init);
			init_text.extend_from_slice(rest);
			let one = guard(|| {
				with_authority_mut(&init_text, *use_ri, |h| {
					for o in history {
						apply_authmut(h, o);
					}
					apply_authmut(h, op);
					observe_authmut(h)
				})
			});
			match one {
				Guard::Ok(Some(((a1, d1), text))) => {
					if text != want_text {
						out.push(mk("one-handle", "buffer").obs(format!("{:?}", lossy(&text))).exp(format!("{:?}", lossy(&want_text))));
						ok = false;
					}
					if a1 != want_auth || d1 != want_auth {
						out.push(mk("one-handle", "handle-view").obs(format!("as_authority {:?}, deref {:?}", lossy(&a1), lossy(&d1))).exp(format!("{:?}", lossy(&want_auth))));
						ok = false;
					}
				}
				Guard::Ok(None) => {
					ok = false;
				}
				Guard::Panic(pm) => {
					out.push(mk("one-handle", "panic").feat("panic_at", panic_site(&pm)).obs(format!("panic: {pm}")).exp("no panic"));
					ok = false;
				}
			}
		}
	}
	// into_authority on a fresh handle after the op (consumes the handle)
	if ok {
		let mut cur_text = prefix.to_vec();
		cur_text.extend_from_slice(before);
		cur_text.extend_from_slice(rest);
		let r = guard(|| {
			let mut b = rirefbuf_of(&cur_text)?;
			let mut h = b.authority_mut()?;
			apply_authmut(&mut h, op);
			Some(h.into_authority().as_bytes().to_vec())
		});
		match r {
			Guard::Ok(Some(a)) if a == want_auth => {}
			other => {
				let input = c11_input(prefix, rest, init, history, op, "RiRefBuf");
				out.push(
					c11_features(Violation::new("C11", "fresh-handle", "into_authority", input), &bparts, op, history.len())
						.obs(match other {
							Guard::Ok(x) => format!("{:?}", x.map(|b| lossy(&b))),
							Guard::Panic(pm) => format!("panic: {pm}"),
						})
						.exp(format!("{:?}", lossy(&want_auth))),
				);
				ok = false;
			}
		}
	}
	if ok {
		Some(want_auth)
	} else {
		None
	}
}

pub fn c11_replay(input: &Value) -> Vec<Violation> {
	let mut out = Vec::new();
	let (prefix, rest, init) = match (json_bytes(&input["prefix"]), json_bytes(&input["rest"]), json_bytes(&input["initial_authority"])) {
		(Some(a), Some(b), Some(c)) => (a, b, c),
		_ => return out,
	};
	let ops: Vec<AOp> = input["ops"].as_array().map(|a| a.iter().filter_map(AOp::from_json).collect()).unwrap_or_default();
	let mut cur = init.clone();
	for (i, op) in ops.iter().enumerate() {
		let mut tmp = Vec::new();
		let r = c11_step(&prefix, &rest, &init, &ops[..i], &cur, op, &mut tmp);
		if i + 1 == ops.len() {
			out.extend(tmp);
		} else {
			match r {
				Some(a) => cur = a,
				None => {
					out.extend(tmp);
					return out;
				}
			}
		}
	}
	out
}
