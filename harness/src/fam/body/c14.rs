// C14: text preserved through every route out; routes in accept what `validate` accepts.

/// Every textual route out of one valid value of `kind`. Returns (route, produced bytes).
pub fn c14_out_routes(kind: Kind, t: &[u8]) -> Guard<Vec<(&'static str, Vec<u8>)>> {
	macro_rules! routes {
		($T:ident, $TBuf:ident, $mk_ref:expr, $mk_owned:expr, $cmp:expr, $extra:expr) => {{
			guard(|| {
				let mut v: Vec<(&'static str, Vec<u8>)> = Vec::new();
				let r: &$T = $mk_ref;
				let o: $TBuf = $mk_owned;
				v.push(("Display", r.to_string().into_bytes()));
				v.push(("Display(owned)", o.to_string().into_bytes()));
				v.push(("Debug", format!("{:?}", r).into_bytes()));
				v.push(("Debug(owned)", format!("{:?}", o).into_bytes()));
				v.push(("as_str", r.as_str().as_bytes().to_vec()));
				v.push(("as_bytes", r.as_bytes().to_vec()));
				v.push(("AsRef<str>", AsRef::<str>::as_ref(r).as_bytes().to_vec()));
				v.push(("AsRef<[u8]>", AsRef::<[u8]>::as_ref(r).to_vec()));
				v.push(("as_str(owned)", o.as_str().as_bytes().to_vec()));
				v.push(("as_bytes(owned)", o.as_bytes().to_vec()));
				v.push(("AsRef<str>(owned)", AsRef::<str>::as_ref(&o).as_bytes().to_vec()));
				v.push(("AsRef<[u8]>(owned)", AsRef::<[u8]>::as_ref(&o).to_vec()));
				v.push(("to_owned", r.to_owned().as_bytes().to_vec()));
				v.push(("clone", o.clone().as_bytes().to_vec()));
				v.push(("into_bytes", o.clone().into_bytes()));
				v.push(("From<Buf> for String", String::from(o.clone()).into_bytes()));
				v.push(("serde_json::to_string", serde_json::to_string(r).unwrap().into_bytes()));
				v.push(("serde_json::to_string(owned)", serde_json::to_string(&o).unwrap().into_bytes()));
				v.push(("serde_json::to_value", match serde_json::to_value(&o).unwrap() {
					Value::String(s) => format!("{:?}", s).into_bytes(),
					other => format!("not-a-string:{other}").into_bytes(),
				}));
				// serialise -> deserialise is the identity
				let js = serde_json::to_string(&o).unwrap();
				let back: $TBuf = serde_json::from_str(&js).unwrap();
				v.push(("serde round trip", back.as_bytes().to_vec()));
				// comparing and hashing never rewrite the text
				if $cmp {
					let _ = c07_pair_obs(kind, t, t);
				}
				v.push(("as_str after ==/cmp/hash", r.as_str().as_bytes().to_vec()));
				let ex: Vec<(&'static str, Vec<u8>)> = $extra(r, &o);
				v.extend(ex);
				v
			})
		}};
	}
	let s = match inp(t) {
		Some(s) => s,
		None => return Guard::Panic("harness: value is not in the family's string type".into()),
	};
	match kind {
		Kind::Ri => routes!(Ri, RiBuf, Ri::new(s).ok().unwrap(), RiBuf::new(own(t.to_vec()).unwrap()).ok().unwrap(), true, |_r: &Ri, o: &RiBuf| {
			vec![("into_iri_ref/into_uri_ref", RiRefBuf::from(o.clone()).as_bytes().to_vec())]
		}),
		Kind::RiRef => routes!(RiRef, RiRefBuf, RiRef::new(s).ok().unwrap(), RiRefBuf::new(own(t.to_vec()).unwrap()).ok().unwrap(), true, |_r: &RiRef, _o: &RiRefBuf| Vec::new()),
		Kind::Scheme => routes!(Scheme, SchemeBuf, Scheme::new(t).ok().unwrap(), SchemeBuf::new(t.to_vec()).ok().unwrap(), true, |_r: &Scheme, _o: &SchemeBuf| Vec::new()),
		Kind::Authority => routes!(Authority, AuthorityBuf, Authority::new(s).ok().unwrap(), AuthorityBuf::new(own(t.to_vec()).unwrap()).ok().unwrap(), true, |_r: &Authority, _o: &AuthorityBuf| Vec::new()),
		Kind::UserInfo => routes!(UserInfo, UserInfoBuf, UserInfo::new(s).ok().unwrap(), UserInfoBuf::new(own(t.to_vec()).unwrap()).ok().unwrap(), true, |r: &UserInfo, o: &UserInfoBuf| {
			// the percent-encoded views are routes out too: they hold the same text
			vec![("as_pct_str", r.as_pct_str().as_str().as_bytes().to_vec()), ("into_pct_string(owned)", o.clone().into_pct_string().as_str().as_bytes().to_vec())]
		}),
		Kind::Host => routes!(Host, HostBuf, Host::new(s).ok().unwrap(), HostBuf::new(own(t.to_vec()).unwrap()).ok().unwrap(), true, |r: &Host, o: &HostBuf| {
			// the percent-encoded views are routes out too: they hold the same text
			vec![("as_pct_str", r.as_pct_str().as_str().as_bytes().to_vec()), ("into_pct_string(owned)", o.clone().into_pct_string().as_str().as_bytes().to_vec())]
		}),
		Kind::Port => routes!(Port, PortBuf, Port::new(t).ok().unwrap(), PortBuf::new(t.to_vec()).ok().unwrap(), true, |_r: &Port, _o: &PortBuf| Vec::new()),
		Kind::Path => routes!(Path, PathBuf, Path::new(s).ok().unwrap(), PathBuf::new(own(t.to_vec()).unwrap()).ok().unwrap(), true, |_r: &Path, _o: &PathBuf| Vec::new()),
		Kind::Segment => routes!(Segment, SegmentBuf, Segment::new(s).ok().unwrap(), SegmentBuf::new(own(t.to_vec()).unwrap()).ok().unwrap(), true, |r: &Segment, _o: &SegmentBuf| {
			// (SegmentBuf has no into_pct_string)
			vec![("as_pct_str", r.as_pct_str().as_str().as_bytes().to_vec())]
		}),
		Kind::Query => routes!(Query, QueryBuf, Query::new(s).ok().unwrap(), QueryBuf::new(own(t.to_vec()).unwrap()).ok().unwrap(), true, |r: &Query, o: &QueryBuf| {
			// the percent-encoded views are routes out too: they hold the same text
			vec![("as_pct_str", r.as_pct_str().as_str().as_bytes().to_vec()), ("into_pct_string(owned)", o.clone().into_pct_string().as_str().as_bytes().to_vec())]
		}),
		Kind::Fragment => routes!(Fragment, FragmentBuf, Fragment::new(s).ok().unwrap(), FragmentBuf::new(own(t.to_vec()).unwrap()).ok().unwrap(), true, |r: &Fragment, o: &FragmentBuf| {
			// the percent-encoded views are routes out too: they hold the same text
			vec![("as_pct_str", r.as_pct_str().as_str().as_bytes().to_vec()), ("into_pct_string(owned)", o.clone().into_pct_string().as_str().as_bytes().to_vec())]
		}),
	}
}

/// Comparison of a value with plain strings must be plain text comparison.
/// Returns (impl name, result) for value `t` against text `u`.
pub fn c14_str_eq(kind: Kind, t: &[u8], u: &str) -> Guard<Vec<(&'static str, bool)>> {
	let s = inp(t).expect("utf8");
	let us = u.to_string();
	guard(|| {
		let mut v: Vec<(&'static str, bool)> = Vec::new();
		match kind {
			Kind::Ri => {
				let r = Ri::new(s).ok().unwrap();
				let o = RiBuf::new(own(t.to_vec()).unwrap()).ok().unwrap();
				v.push(("Ri==str", *r == *u));
				v.push(("Ri==str (through !=)", !(*r != *u)));
				v.push(("Ri==&str", *r == u));
				v.push(("Ri==&str (through !=)", !(*r != u)));
				v.push(("Ri==String", *r == us));
				v.push(("Ri==String (through !=)", !(*r != us)));
				v.push(("RiBuf==str", o == *u));
				v.push(("RiBuf==str (through !=)", !(o != *u)));
				v.push(("RiBuf==&str", o == u));
				v.push(("RiBuf==&str (through !=)", !(o != u)));
				v.push(("RiBuf==String", o == us));
				v.push(("RiBuf==String (through !=)", !(o != us)));
				v.extend(extra_str_eq(kind, t, u));
			}
			Kind::RiRef => {
				let r = RiRef::new(s).ok().unwrap();
				let o = RiRefBuf::new(own(t.to_vec()).unwrap()).ok().unwrap();
				v.push(("RiRef==str", *r == *u));
				v.push(("RiRef==str (through !=)", !(*r != *u)));
				v.push(("RiRef==&str", *r == u));
				v.push(("RiRef==&str (through !=)", !(*r != u)));
				v.push(("RiRef==String", *r == us));
				v.push(("RiRef==String (through !=)", !(*r != us)));
				v.push(("RiRefBuf==str", o == *u));
				v.push(("RiRefBuf==str (through !=)", !(o != *u)));
				v.push(("RiRefBuf==&str", o == u));
				v.push(("RiRefBuf==&str (through !=)", !(o != u)));
				v.push(("RiRefBuf==String", o == us));
				v.push(("RiRefBuf==String (through !=)", !(o != us)));
				v.extend(extra_str_eq(kind, t, u));
			}
			Kind::Path => {
				let r = Path::new(s).ok().unwrap();
				v.push(("Path==str", *r == *u));
				v.push(("Path==str (through !=)", !(*r != *u)));
				v.push(("Path==&str", *r == u));
				v.push(("Path==&str (through !=)", !(*r != u)));
				v.push(("Path==String", *r == us));
				v.push(("Path==String (through !=)", !(*r != us)));
				v.extend(extra_str_eq(kind, t, u));
			}
			Kind::Segment => {
				v.extend(extra_str_eq(kind, t, u));
			}
			Kind::Authority => {
				let r = Authority::new(s).ok().unwrap();
				v.push(("Authority==&str", *r == u));
				v.push(("Authority==&str (through !=)", !(*r != u)));
			}
			Kind::Host => {
				let r = Host::new(s).ok().unwrap();
				v.push(("Host==&str", *r == u));
				v.push(("Host==&str (through !=)", !(*r != u)));
			}
			Kind::UserInfo => {
				let r = UserInfo::new(s).ok().unwrap();
				v.push(("UserInfo==&str", *r == u));
				v.push(("UserInfo==&str (through !=)", !(*r != u)));
			}
			Kind::Query => {
				let r = Query::new(s).ok().unwrap();
				v.push(("Query==&str", *r == u));
				v.push(("Query==&str (through !=)", !(*r != u)));
			}
			Kind::Fragment => {
				let r = Fragment::new(s).ok().unwrap();
				v.push(("Fragment==&str", *r == u));
				v.push(("Fragment==&str (through !=)", !(*r != u)));
			}
			_ => {}
		}
		v
	})
}

/// Comparison with a string that ALIASES the value's own buffer: the value parsed from the whole
/// text against every proper prefix of that text taken as a `&str` of the same buffer, and every
/// valid proper prefix parsed in place against the whole text. All must be unequal (the texts
/// differ in length); a start-address shortcut would say equal. Returns the names that said equal.
pub fn c14_aliased_str_eq(kind: Kind, t: &[u8]) -> Guard<(u64, Vec<String>)> {
	let text = std::str::from_utf8(t).expect("utf8");
	guard(|| {
		let mut bad: Vec<String> = Vec::new();
		let mut n = 0u64;
		macro_rules! go {
			($T:ident, $with_str:expr) => {{
				let whole = $T::new(inp(t).unwrap()).ok().unwrap();
				for k in 0..text.len() {
					if !text.is_char_boundary(k) {
						continue;
					}
					let pre: &str = &text[..k];
					n += 1;
					if *whole == pre {
						bad.push(format!("{}(whole)==&str(prefix {k})", stringify!($T)));
					}
					if let Some(pin) = inp(&t[..k]) {
						if let Ok(part) = $T::new(pin) {
							n += 1;
							if *part == text {
								bad.push(format!("{}(prefix {k})==&str(whole)", stringify!($T)));
							}
						}
					}
				}
				let _ = $with_str;
			}};
		}
		macro_rules! go_str {
			($T:ident) => {{
				let whole = $T::new(inp(t).unwrap()).ok().unwrap();
				for k in 0..text.len() {
					if !text.is_char_boundary(k) {
						continue;
					}
					let pre: &str = &text[..k];
					n += 1;
					if *whole == *pre {
						bad.push(format!("{}(whole)==str(prefix {k})", stringify!($T)));
					}
					if let Some(pin) = inp(&t[..k]) {
						if let Ok(part) = $T::new(pin) {
							n += 1;
							if *part == *text {
								bad.push(format!("{}(prefix {k})==str(whole)", stringify!($T)));
							}
						}
					}
				}
			}};
		}
		match kind {
			Kind::Ri => {
				go!(Ri, true);
				go_str!(Ri);
			}
			Kind::RiRef => {
				go!(RiRef, true);
				go_str!(RiRef);
			}
			Kind::Path => {
				go!(Path, true);
				go_str!(Path);
			}
			Kind::Authority => go!(Authority, false),
			Kind::Host => go!(Host, false),
			Kind::UserInfo => go!(UserInfo, false),
			Kind::Query => go!(Query, false),
			Kind::Fragment => go!(Fragment, false),
			_ => {}
		}
		(n, bad)
	})
}

pub fn c14_input(kind: Kind, t: &[u8]) -> Value {
	json!({"fam": fam_name(), "kind": kind.name(), "text": bytes_json(t)})
}

/// Out-routes + string comparison for one valid value. `others`: texts to compare with.
pub fn c14_value_case(kind: Kind, t: &[u8], others: &[Vec<u8>], out: &mut Vec<Violation>) -> u64 {
	let mk = |check: &str, what: &str| Violation::new("C14", check, what, c14_input(kind, t)).feat("type", format!("{}::{}", fam_name(), kind.name()));
	let mut n = 0u64;
	let text = std::str::from_utf8(t).expect("valid values are UTF-8");
	let dbg = format!("{:?}", text).into_bytes();
	let js = serde_json::to_string(text).unwrap().into_bytes();
	match c14_out_routes(kind, t) {
		Guard::Ok(routes) => {
			for (name, got) in routes {
				n += 1;
				let want: &[u8] = if name.starts_with("Debug") || name == "serde_json::to_value" {
					&dbg
				} else if name.starts_with("serde_json::to_string") {
					&js
				} else {
					t
				};
				if got != want {
					out.push(mk("out", name).obs(format!("{:?}", lossy(&got))).exp(format!("{:?}", lossy(want))));
				}
			}
		}
		Guard::Panic(pm) => out.push(mk("out", "panic").feat("panic_at", panic_site(&pm)).obs(format!("panic: {pm}")).exp("no panic")),
	}
	match c14_aliased_str_eq(kind, t) {
		Guard::Ok((k, bad)) => {
			n += k;
			for name in bad {
				out.push(mk("str-eq-aliased", "equal-to-a-string-of-another-length").obs(name).exp("plain text comparison: false"));
			}
		}
		Guard::Panic(pm) => out.push(mk("str-eq-aliased", "panic").feat("panic_at", panic_site(&pm)).obs(format!("panic: {pm}")).exp("no panic")),
	}
	for u in others {
		let us = match std::str::from_utf8(u) {
			Ok(x) => x,
			Err(_) => continue,
		};
		match c14_str_eq(kind, t, us) {
			Guard::Ok(list) => {
				for (name, e) in list {
					n += 1;
					if e != (t == &u[..]) {
						out.push(mk("str-eq", name).obs(format!("{name} against {:?} is {e}", us)).exp(format!("plain text comparison: {}", t == &u[..])));
					}
				}
			}
			Guard::Panic(pm) => out.push(mk("str-eq", "panic").feat("panic_at", panic_site(&pm)).obs(format!("panic: {pm}")).exp("no panic")),
		}
	}
	n
}

/// In-routes on one arbitrary string: every route accepts exactly when `validate` accepts.
pub fn c14_in_case(kind: Kind, t: &[u8], out: &mut Vec<Violation>) -> u64 {
	let verdict = c01_validate(kind, t);
	let mut probs = Vec::new();
	let n = c01_routes(kind, t, verdict, &mut probs);
	for (route, prob) in probs {
		out.push(
			Violation::new("C14", "in", &route, c14_input(kind, t))
				.feat("type", format!("{}::{}", fam_name(), kind.name()))
				.feat("validate_accepts", verdict)
				.obs(prob)
				.exp(if verdict { "accepted, text kept" } else { "rejected" }),
		);
	}
	n
}

pub fn c14_replay(check: &str, input: &Value, others: &[Vec<u8>]) -> Vec<Violation> {
	let mut out = Vec::new();
	if let (Some(k), Some(t)) = (input["kind"].as_str().and_then(Kind::parse), json_bytes(&input["text"])) {
		if check == "in" {
			c14_in_case(k, &t, &mut out);
		} else {
			c14_value_case(k, &t, others, &mut out);
		}
	}
	out
}
