// C20: borrowed parsing and component access are zero-copy and allocation-free.

use crate::engine::alloc;

/// Where a returned slice lies relative to the input.
#[derive(Clone, Copy, PartialEq, Eq, Debug)]
pub enum Loc {
	/// inside the input: (start offset, end offset)
	Inside(usize, usize),
	/// outside, but one of the fixed constants "", "/", "/./"
	Constant,
	/// outside and not a known constant
	Foreign,
}

fn locate(input: &[u8], s: &[u8]) -> Loc {
	let base = input.as_ptr() as usize;
	let p = s.as_ptr() as usize;
	if p >= base && p + s.len() <= base + input.len() {
		Loc::Inside(p - base, p - base + s.len())
	} else if s.is_empty() || s == b"/" || s == b"/./" {
		Loc::Constant
	} else {
		Loc::Foreign
	}
}

pub struct Probe {
	pub name: &'static str,
	pub allocs: u64,
	pub loc: Option<Loc>,
}

macro_rules! probe {
	($v:ident, $input:expr, $name:expr, $call:expr) => {{
		let c0 = alloc::count();
		let r = $call;
		let c1 = alloc::count();
		let loc = r.map(|s: &[u8]| locate($input, s));
		$v.push(Probe { name: $name, allocs: c1 - c0, loc });
	}};
}

/// Measure every read-only accessor of the borrowed reference type on `t`.
/// The probe vector is pre-allocated so that recording does not disturb the counter.
pub fn c20_probes(t: &[u8]) -> Option<(Vec<Probe>, u64, u64)> {
	let s = inp(t)?;
	let mut v: Vec<Probe> = Vec::with_capacity(256);
	// parsing
	let c0 = alloc::count();
	let r = RiRef::new(s).ok();
	let c1 = alloc::count();
	let r = r?;
	let parse_allocs = c1 - c0;
	let c0 = alloc::count();
	let _ok = RiRef::validate(tokens(s));
	let validate_allocs = alloc::count() - c0;
	let input: &[u8] = t;
	probe!(v, input, "value", Some(r.as_bytes()));
	probe!(v, input, "scheme", r.scheme().map(|x| x.as_bytes()));
	probe!(v, input, "authority", r.authority().map(|x| x.as_bytes()));
	probe!(v, input, "path", Some(r.path().as_bytes()));
	probe!(v, input, "query", r.query().map(|x| x.as_bytes()));
	probe!(v, input, "fragment", r.fragment().map(|x| x.as_bytes()));
	{
		let c0 = alloc::count();
		let p = r.parts();
		let c1 = alloc::count();
		v.push(Probe { name: "parts()", allocs: c1 - c0, loc: None });
		probe!(v, input, "parts.scheme", p.scheme.map(|x| x.as_bytes()));
		probe!(v, input, "parts.authority", p.authority.map(|x| x.as_bytes()));
		probe!(v, input, "parts.path", Some(p.path.as_bytes()));
		probe!(v, input, "parts.query", p.query.map(|x| x.as_bytes()));
		probe!(v, input, "parts.fragment", p.fragment.map(|x| x.as_bytes()));
	}
	probe!(v, input, "base", Some(r.base().as_bytes()));
	if let Some(a) = r.authority() {
		probe!(v, input, "authority.user_info", a.user_info().map(|x| x.as_bytes()));
		probe!(v, input, "authority.host", Some(a.host().as_bytes()));
		probe!(v, input, "authority.port", a.port().map(|x| x.as_bytes()));
		let c0 = alloc::count();
		let ap = a.parts();
		let c1 = alloc::count();
		v.push(Probe { name: "authority.parts()", allocs: c1 - c0, loc: None });
		probe!(v, input, "authority.parts.user_info", ap.user_info.map(|x| x.as_bytes()));
		probe!(v, input, "authority.parts.host", Some(ap.host.as_bytes()));
		probe!(v, input, "authority.parts.port", ap.port.map(|x| x.as_bytes()));
	}
	let p = r.path();
	probe!(v, input, "path.first", p.first().map(|x| x.as_bytes()));
	probe!(v, input, "path.last", p.last().map(|x| x.as_bytes()));
	probe!(v, input, "path.file_name", p.file_name().map(|x| x.as_bytes()));
	probe!(v, input, "path.directory", Some(p.directory().as_bytes()));
	probe!(v, input, "path.parent", p.parent().map(|x| x.as_bytes()));
	probe!(v, input, "path.parent_or_empty", Some(p.parent_or_empty().as_bytes()));
	{
		// iterate fully, both ways; every yielded segment must lie inside the input
		let c0 = alloc::count();
		let mut worst = Loc::Inside(0, 0);
		let mut n = 0usize;
		for sg in p.segments() {
			n += 1;
			// read-only queries on a segment are part of the same allocation-free walk
			if sg.looks_like_scheme() {
				n += 1;
			}
			n += sg.as_pct_str().as_bytes().len() & 1;
			let l = locate(input, sg.as_bytes());
			if !matches!(l, Loc::Inside(..)) && !sg.as_bytes().is_empty() {
				worst = l;
			}
		}
		{
			// alternating ends on ONE iterator
			let mut it = p.segments();
			loop {
				let a = it.next();
				let b = it.next_back();
				n += a.is_some() as usize + b.is_some() as usize;
				if a.is_none() && b.is_none() {
					break;
				}
			}
		}
		for sg in p.segments().rev() {
			n += 1;
			let l = locate(input, sg.as_bytes());
			if !matches!(l, Loc::Inside(..)) && !sg.as_bytes().is_empty() {
				worst = l;
			}
		}
		let c1 = alloc::count();
		let _ = n;
		v.push(Probe { name: "path.segments", allocs: c1 - c0, loc: Some(worst) });
		let c0 = alloc::count();
		let _ = (p.is_empty(), p.is_absolute(), p.segment_count());
		v.push(Probe { name: "path.queries", allocs: alloc::count() - c0, loc: None });
	}
	// borrowed-to-borrowed conversions (validated views of the same bytes)
	for (name, allocs, bytes) in borrowed_conversions(r) {
		v.push(Probe { name, allocs, loc: bytes.map(|b| locate(input, b)) });
	}
	// the non-reference type when there is a scheme
	if r.scheme().is_some() {
		let c0 = alloc::count();
		let ri = Ri::new(s).ok();
		let c1 = alloc::count();
		v.push(Probe { name: "Ri::new", allocs: c1 - c0, loc: ri.map(|x| locate(input, x.as_bytes())) });
		if let Some(ri) = ri {
			probe!(v, input, "ri.scheme", Some(ri.scheme().as_bytes()));
			probe!(v, input, "ri.authority", ri.authority().map(|x| x.as_bytes()));
			probe!(v, input, "ri.path", Some(ri.path().as_bytes()));
			probe!(v, input, "ri.query", ri.query().map(|x| x.as_bytes()));
			probe!(v, input, "ri.fragment", ri.fragment().map(|x| x.as_bytes()));
			probe!(v, input, "ri.base", Some(ri.base().as_bytes()));
			let c0 = alloc::count();
			let pp = ri.parts();
			let c1 = alloc::count();
			v.push(Probe { name: "ri.parts()", allocs: c1 - c0, loc: Some(locate(input, pp.path.as_bytes())) });
		}
	}
	// component types parsed on their own sub-slices
	macro_rules! comp {
		($T:ident, $name:expr, $slice:expr) => {
			if let Some(sl) = $slice {
				if let Some(cs) = inp(sl) {
					let c0 = alloc::count();
					let c = $T::new(cs).ok();
					let c1 = alloc::count();
					v.push(Probe { name: $name, allocs: c1 - c0, loc: c.map(|x| locate(sl, x.as_bytes())) });
				}
			}
		};
	}
	comp!(Authority, "Authority::new", r.authority().map(|x| x.as_bytes()));
	comp!(Path, "Path::new", Some(r.path().as_bytes()));
	comp!(Query, "Query::new", r.query().map(|x| x.as_bytes()));
	comp!(Fragment, "Fragment::new", r.fragment().map(|x| x.as_bytes()));
	comp!(Segment, "Segment::new", r.path().last().map(|x| x.as_bytes()));
	if let Some(a) = r.authority() {
		comp!(Host, "Host::new", Some(a.host().as_bytes()));
		comp!(UserInfo, "UserInfo::new", a.user_info().map(|x| x.as_bytes()));
		if let Some(pt) = a.port() {
			let c0 = alloc::count();
			let c = Port::new(pt.as_bytes()).ok();
			let c1 = alloc::count();
			v.push(Probe { name: "Port::new", allocs: c1 - c0, loc: c.map(|x| locate(pt.as_bytes(), x.as_bytes())) });
		}
	}
	if let Some(sc) = r.scheme() {
		let c0 = alloc::count();
		let c = Scheme::new(sc.as_bytes()).ok();
		let c1 = alloc::count();
		v.push(Probe { name: "Scheme::new", allocs: c1 - c0, loc: c.map(|x| locate(sc.as_bytes(), x.as_bytes())) });
	}
	Some((v, parse_allocs, validate_allocs))
}

pub fn c20_case(t: &[u8], out: &mut Vec<Violation>) -> u64 {
	let input = text_input(t);
	let mk = |what: &str, acc: &str| Violation::new("C20", "zero-copy", what, input.clone()).feat("accessor", acc);
	let r = guard(|| c20_probes(t));
	let (probes, pa, va) = match r {
		Guard::Ok(Some(x)) => x,
		Guard::Ok(None) => {
			out.push(mk("new", "RiRef::new").obs("rejected").exp("accepted"));
			return 1;
		}
		Guard::Panic(pm) => {
			out.push(mk("panic", "-").obs(format!("panic: {pm}")).exp("no panic"));
			return 1;
		}
	};
	if pa != 0 {
		out.push(mk("allocation", "RiRef::new").obs(format!("{pa} heap allocation(s)")).exp("0"));
	}
	if va != 0 {
		out.push(mk("allocation", "RiRef::validate").obs(format!("{va} heap allocation(s)")).exp("0"));
	}
	let n = probes.len() as u64;
	let mut span: std::collections::BTreeMap<&str, (usize, usize)> = Default::default();
	for p in &probes {
		if p.allocs != 0 {
			out.push(mk("allocation", p.name).obs(format!("{} heap allocation(s)", p.allocs)).exp("0"));
		}
		match p.loc {
			Some(Loc::Foreign) => out.push(mk("not-a-subslice", p.name).obs("returned data lies outside the caller's input and is not a fixed constant").exp("a sub-slice of the input")),
			Some(Loc::Inside(a, b)) => {
				span.insert(p.name, (a, b));
				if p.name == "value" || p.name == "Ri::new" || p.name.ends_with("::new") {
					// a parsed value occupies exactly its input
					let want_len = if p.name == "value" || p.name == "Ri::new" { t.len() } else { b - a };
					if a != 0 || b - a != want_len {
						out.push(mk("not-the-input", p.name).obs(format!("offset {a}, len {}", b - a)).exp("exactly the input slice"));
					}
				}
			}
			_ => {}
		}
	}
	// components in order, without overlap; accessors and parts() agree on the location
	let order = ["scheme", "authority", "path", "query", "fragment"];
	let mut last_end = 0usize;
	for name in order {
		if let Some((a, b)) = span.get(name) {
			if *a < last_end {
				out.push(mk("overlap-or-order", name).obs(format!("{name} at {a}..{b} starts before the end {last_end} of the previous component")).exp("scheme, authority, path, query, fragment in that order, disjoint"));
			}
			last_end = *b;
		}
		let pn = format!("parts.{name}");
		if let (Some(x), Some(y)) = (span.get(name), span.get(pn.as_str())) {
			if x != y {
				out.push(mk("accessor-vs-parts-location", name).obs(format!("{:?} vs {:?}", x, y)).exp("same sub-slice"));
			}
		}
	}
	n + 2
}

pub fn c20_replay(input: &Value) -> Vec<Violation> {
	let mut out = Vec::new();
	if let Some(t) = json_bytes(&input["text"]) {
		c20_case(&t, &mut out);
	}
	out
}
