// C12: segment iteration and path queries agree with the '/'-split of the text.

pub fn c12_input(path: &[u8]) -> Value {
	json!({"fam": fam_name(), "path": bytes_json(path)})
}

/// One case = one path text; every query and all interleavings of next/next_back.
pub fn c12_case(text: &[u8], out: &mut Vec<Violation>) -> u64 {
	let mut evals = 0u64;
	let mk = |op: &str| Violation::new("C12", "path-queries", op, c12_input(text));
	let s = match inp(text) {
		Some(s) => s,
		None => return 0,
	};
	let p = match Path::new(s) {
		Ok(p) => p,
		Err(_) => {
			out.push(mk("new").obs("rejected").exp("accepted (reference DFA accepts)"));
			return 1;
		}
	};
	let m = pathlist::split(text);
	let k = m.segs.len();
	let segs_dbg = |v: &Vec<Vec<u8>>| format!("{:?}", v.iter().map(|x| lossy(x)).collect::<Vec<_>>());

	// simple queries
	macro_rules! q {
		($op:expr, $got:expr, $want:expr) => {{
			evals += 1;
			match guard(|| $got) {
				Guard::Ok(g) => {
					let w = $want;
					if g != w {
						out.push(mk($op).obs(format!("{:?}", g)).exp(format!("{:?}", w)));
					}
				}
				Guard::Panic(pm) => out.push(mk($op).obs(format!("panic: {pm}")).exp("no panic")),
			}
		}};
	}
	if let Some(first) = m.segs.first() {
		q!("first.looks_like_scheme", p.first().map(|s| s.looks_like_scheme()), Some(model_looks_like_scheme(first)));
	}
	q!("is_absolute", p.is_absolute(), m.abs);
	q!("is_relative", p.is_relative(), !m.abs);
	q!("is_empty", p.is_empty(), k == 0);
	q!("segment_count", p.segment_count(), k);
	{
		// the owned path: queried with method syntax on the buffer itself
		let o = pathbuf_of(text).expect("valid path");
		q!("owned.is_empty", o.is_empty(), k == 0);
		q!("owned.is_absolute", o.is_absolute(), m.abs);
		q!("owned.is_relative", o.is_relative(), !m.abs);
		q!("owned.segment_count", o.segment_count(), k);
		q!("owned.first", ob(o.first()), m.segs.first().cloned());
		q!("owned.last", ob(o.last()), m.segs.last().cloned());
		q!("owned.file_name", ob(o.file_name()), m.segs.last().filter(|s| !s.is_empty()).cloned());
		q!("owned.segments.collect", o.segments().map(|s| s.as_bytes().to_vec()).collect::<Vec<_>>(), m.segs.clone());
	}
	q!("first", ob(p.first()), m.segs.first().cloned());
	q!("last", ob(p.last()), m.segs.last().cloned());
	q!("file_name", ob(p.file_name()), m.segs.last().filter(|s| !s.is_empty()).cloned());
	q!("segments.collect", p.segments().map(|s| s.as_bytes().to_vec()).collect::<Vec<_>>(), m.segs.clone());
	q!(
		"segments.rev.collect",
		p.segments().rev().map(|s| s.as_bytes().to_vec()).collect::<Vec<_>>(),
		m.segs.iter().rev().cloned().collect::<Vec<_>>()
	);
	q!("into_iter.collect", p.into_iter().map(|s| s.as_bytes().to_vec()).collect::<Vec<_>>(), m.segs.clone());
	q!(
		"normalized_segments.len",
		p.normalized_segments().len(),
		pathlist::normalize_segments(m.abs, &m.segs).len()
	);
	// joining the yielded segments reproduces the text
	q!(
		"join",
		{
			let v: Vec<Vec<u8>> = p.segments().map(|s| s.as_bytes().to_vec()).collect();
			pathlist::plain(p.is_absolute(), &v)
		},
		text.to_vec()
	);
	// directory: text up to and including the last '/', the empty path when there is none
	let dir_want: Vec<u8> = match text.iter().rposition(|c| *c == b'/') {
		Some(i) => text[..=i].to_vec(),
		None => Vec::new(),
	};
	q!("directory", p.directory().as_bytes().to_vec(), dir_want);
	// parent: all-but-last segments, same absoluteness
	evals += 1;
	match guard(|| p.parent().map(|x| x.as_bytes().to_vec())) {
		Guard::Ok(got) => {
			let ok = if k == 0 {
				got.is_none()
			} else {
				match &got {
					// pinned by the repository's tests: a single relative segment has no parent
					None => !m.abs && k == 1,
					Some(t) => pathlist::accepts_strict(t, m.abs, &m.segs[..k - 1]),
				}
			};
			if !ok {
				out.push(
					mk("parent")
						.obs(opt_lossy(&got))
						.exp(format!("a rendering of abs={} segs={}", m.abs, segs_dbg(&m.segs[..k.saturating_sub(1)].to_vec()))),
				);
			}
		}
		Guard::Panic(pm) => out.push(mk("parent").obs(format!("panic: {pm}")).exp("no panic")),
	}
	evals += 1;
	match guard(|| p.parent_or_empty().as_bytes().to_vec()) {
		Guard::Ok(t) => {
			let want_segs: &[Vec<u8>] = if k == 0 { &[] } else { &m.segs[..k - 1] };
			if !pathlist::accepts_strict(&t, m.abs, want_segs) {
				out.push(
					mk("parent_or_empty")
						.obs(format!("{:?}", lossy(&t)))
						.exp(format!("a rendering of abs={} segs={}", m.abs, segs_dbg(&want_segs.to_vec()))),
				);
			}
		}
		Guard::Panic(pm) => out.push(mk("parent_or_empty").obs(format!("panic: {pm}")).exp("no panic")),
	}

	// derived iterator methods from every cursor state: after i front steps and j back steps
	// the iterator must behave as an iterator over segs[i..k-j]
	if k <= 8 {
		for i in 0..=k {
			for j in 0..=(k - i) {
				evals += 1;
				let rest: Vec<Vec<u8>> = m.segs[i..k - j].to_vec();
				let r = guard(|| {
					let mk_it = || {
						let mut it = p.segments();
						for _ in 0..i {
							it.next();
						}
						for _ in 0..j {
							it.next_back();
						}
						it
					};
					let mut probs: Vec<String> = Vec::new();
					let cnt = mk_it().count();
					if cnt != rest.len() {
						probs.push(format!("count() = {cnt}, want {}", rest.len()));
					}
					let last = mk_it().last().map(|s| s.as_bytes().to_vec());
					if last != rest.last().cloned() {
						probs.push(format!("last() = {}, want {}", opt_lossy(&last), opt_lossy(&rest.last().cloned())));
					}
					for nth in 0..=rest.len() {
						let g = mk_it().nth(nth).map(|s| s.as_bytes().to_vec());
						if g != rest.get(nth).cloned() {
							probs.push(format!("nth({nth}) = {}, want {}", opt_lossy(&g), opt_lossy(&rest.get(nth).cloned())));
						}
						let gb = mk_it().nth_back(nth).map(|s| s.as_bytes().to_vec());
						let wb = if nth < rest.len() { Some(rest[rest.len() - 1 - nth].clone()) } else { None };
						if gb != wb {
							probs.push(format!("nth_back({nth}) = {}, want {}", opt_lossy(&gb), opt_lossy(&wb)));
						}
					}
					let coll: Vec<Vec<u8>> = mk_it().map(|s| s.as_bytes().to_vec()).collect();
					if coll != rest {
						probs.push("collect() differs".to_string());
					}
					let rev: Vec<Vec<u8>> = mk_it().rev().map(|s| s.as_bytes().to_vec()).collect();
					if rev.iter().rev().cloned().collect::<Vec<_>>() != rest {
						probs.push("rev().collect() differs".to_string());
					}
					let folded = mk_it().fold(0usize, |a, s| a + s.as_bytes().len());
					if folded != rest.iter().map(|s| s.len()).sum::<usize>() {
						probs.push("fold differs".to_string());
					}
					// consumers an iterator may override on its own (rfold, try_fold, ...): each must see
					// exactly the remaining segments
					let want_rev: Vec<Vec<u8>> = rest.iter().rev().cloned().collect();
					let rfolded = mk_it().rfold(Vec::new(), |mut a: Vec<Vec<u8>>, s| {
						a.push(s.as_bytes().to_vec());
						a
					});
					if rfolded != want_rev {
						probs.push("rfold differs".to_string());
					}
					if mk_it().rev().count() != rest.len() {
						probs.push(format!("rev().count() = {}, want {}", mk_it().rev().count(), rest.len()));
					}
					if mk_it().rev().last().map(|s| s.as_bytes().to_vec()) != rest.first().cloned() {
						probs.push("rev().last() differs".to_string());
					}
					let mut each: Vec<Vec<u8>> = Vec::new();
					mk_it().for_each(|s| each.push(s.as_bytes().to_vec()));
					if each != rest {
						probs.push("for_each differs".to_string());
					}
					let mut each_rev: Vec<Vec<u8>> = Vec::new();
					mk_it().rev().for_each(|s| each_rev.push(s.as_bytes().to_vec()));
					if each_rev != want_rev {
						probs.push("rev().for_each differs".to_string());
					}
					let tf: Result<usize, ()> = mk_it().try_fold(0usize, |a, _| Ok(a + 1));
					let trf: Result<usize, ()> = mk_it().try_rfold(0usize, |a, _| Ok(a + 1));
					if tf != Ok(rest.len()) || trf != Ok(rest.len()) {
						probs.push(format!("try_fold / try_rfold count {:?} / {:?}, want {}", tf, trf, rest.len()));
					}
					if mk_it().rfind(|_| true).map(|s| s.as_bytes().to_vec()) != rest.last().cloned() || mk_it().find(|_| true).map(|s| s.as_bytes().to_vec()) != rest.first().cloned() {
						probs.push("find / rfind differs".to_string());
					}
					let (lo, hi) = mk_it().size_hint();
					if lo > rest.len() || hi.map(|h| h < rest.len()).unwrap_or(false) {
						probs.push(format!("size_hint ({lo}, {:?}) excludes {}", hi, rest.len()));
					}
					probs
				});
				match r {
					Guard::Ok(probs) => {
						if let Some(first) = probs.first() {
							out.push(mk("derived-iterator-method").obs(format!("after {i} next() and {j} next_back(): {first}")).exp("consistent with the remaining segments"));
						}
					}
					Guard::Panic(pm) => out.push(mk("derived-iterator-method").obs(format!("panic: {pm}")).exp("no panic")),
				}
			}
		}
	}

	// every interleaving of next / next_back, two steps beyond exhaustion (fusedness)
	let steps = k + 2;
	// all 2^(k+2) schedules for short paths; for long ones a family of regular schedules
	// (all front, all back, alternating from either end, blocks of 3, front-half/back-half)
	let masks: Vec<u64> = if steps <= 12 {
		(0u64..(1u64 << steps)).collect()
	} else if steps <= 62 {
		let all = (1u64 << steps) - 1;
		let alt = 0xAAAA_AAAA_AAAA_AAAAu64 & all;
		let b3 = 0x71C7_1C71_C71C_71C7u64 & all;
		let half = ((1u64 << (steps / 2)) - 1) & all;
		vec![0, all, alt, !alt & all, b3, !b3 & all, half, !half & all]
	} else {
		vec![]
	};
	{
		for mask in masks {
			let mask = mask as u128;
			evals += 1;
			let r = guard(|| {
				let mut it = p.segments();
				let mut lo = 0usize;
				let mut hi = k;
				for i in 0..steps {
					let back = (mask >> i) & 1 == 1;
					let got = if back { it.next_back() } else { it.next() };
					let want: Option<&Vec<u8>> = if lo < hi {
						if back {
							hi -= 1;
							Some(&m.segs[hi])
						} else {
							lo += 1;
							Some(&m.segs[lo - 1])
						}
					} else {
						None
					};
					let g = got.map(|s| s.as_bytes());
					if g != want.map(|v| v.as_slice()) {
						return Some((i, g.map(|x| x.to_vec()), want.cloned()));
					}
				}
				None
			});
			match r {
				Guard::Ok(None) => {}
				Guard::Ok(Some((i, g, w))) => {
					let sched: String = (0..steps).map(|j| if (mask >> j) & 1 == 1 { 'B' } else { 'F' }).collect();
					out.push(
						mk("interleaving")
							.obs(format!("schedule {sched} step {i}: {}", opt_lossy(&g)))
							.exp(opt_lossy(&w)),
					);
					break;
				}
				Guard::Panic(pm) => {
					out.push(mk("interleaving").obs(format!("panic: {pm}")).exp("no panic"));
					break;
				}
			}
		}
	}
	evals
}

/// Fixed constants of the path / segment types and the scheme-likeness predicate.
pub fn c12_constants(out: &mut Vec<Violation>) -> u64 {
	let mk = |what: &str| Violation::new("C12", "constants", what, json!({"fam": fam_name(), "path": ""}));
	let mut n = 0;
	let mut chk = |name: &str, got: &[u8], want: &[u8], out: &mut Vec<Violation>| {
		n += 1;
		if got != want {
			out.push(mk(name).obs(format!("{:?}", lossy(got))).exp(format!("{:?}", lossy(want))));
		}
	};
	chk("Path::EMPTY", Path::EMPTY.as_bytes(), b"", out);
	chk("Path::EMPTY_ABSOLUTE", Path::EMPTY_ABSOLUTE.as_bytes(), b"/", out);
	chk("Segment::EMPTY", Segment::EMPTY.as_bytes(), b"", out);
	chk("Segment::CURRENT", Segment::CURRENT.as_bytes(), b".", out);
	chk("Segment::PARENT", Segment::PARENT.as_bytes(), b"..", out);
	chk("PathBuf::default", PathBuf::default().as_bytes(), b"", out);
	chk("RiRefBuf::default", RiRefBuf::default().as_bytes(), b"", out);
	chk("Query::EMPTY", Query::EMPTY.as_bytes(), b"", out);
	chk("Fragment::EMPTY", Fragment::EMPTY.as_bytes(), b"", out);
	chk("Authority::EMPTY", Authority::EMPTY.as_bytes(), b"", out);
	chk("Host::EMPTY", Host::EMPTY.as_bytes(), b"", out);
	chk("UserInfo::EMPTY", UserInfo::EMPTY.as_bytes(), b"", out);
	chk("Port::EMPTY", Port::EMPTY.as_bytes(), b"", out);
	chk("RiRef::EMPTY", RiRef::EMPTY.as_bytes(), b"", out);
	for s in ["s", "ab+1.-", "HTTP"] {
		let got = guard(|| RiBuf::from_scheme(SchemeBuf::new(s.as_bytes().to_vec()).ok().unwrap()).as_bytes().to_vec());
		let mut want = s.as_bytes().to_vec();
		want.push(b':');
		match got {
			Guard::Ok(g) => chk("RiBuf::from_scheme", &g, &want, out),
			Guard::Panic(pm) => out.push(mk("RiBuf::from_scheme").obs(format!("panic: {pm}")).exp("no panic")),
		}
	}
	n
}

/// `looks_like_scheme` on paths and segments: of the form prefix:suffix with a valid scheme prefix.
fn model_looks_like_scheme(t: &[u8]) -> bool {
	match t.iter().position(|c| *c == b':') {
		Some(i) if i > 0 => t[0].is_ascii_alphabetic() && t[..i].iter().all(|c| c.is_ascii_alphanumeric() || matches!(c, b'+' | b'-' | b'.')),
		_ => false,
	}
}

pub fn c12_replay(input: &Value) -> Vec<Violation> {
	let mut out = Vec::new();
	if let Some(p) = json_bytes(&input["path"]) {
		c12_case(&p, &mut out);
		if p.is_empty() {
			c12_constants(&mut out);
		}
	}
	out
}
