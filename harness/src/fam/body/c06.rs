// C06: reference resolution = RFC 3986 section 5.2 (+ Errata 4547).

use crate::model::resolve;

pub fn c06_input(base: &[u8], r: &[u8]) -> Value {
	json!({"fam": fam_name(), "base": bytes_json(base), "reference": bytes_json(r)})
}

/// Observation shared with the URI/IRI differential (C13): the three entry points.
pub fn c06_observe(base: &[u8], r: &[u8]) -> Guard<(Vec<u8>, Vec<u8>, Vec<u8>, Vec<u8>)> {
	guard(|| {
		let b = Ri::new(inp(base).expect("utf8")).ok().expect("valid base");
		let rr = RiRef::new(inp(r).expect("utf8")).ok().expect("valid reference");
		let by_ref = rr.resolved(b).as_bytes().to_vec();
		let mut buf = rirefbuf_of(r).expect("valid reference");
		buf.resolve(b);
		let in_place = buf.as_bytes().to_vec();
		let by_val = rirefbuf_of(r).expect("valid reference").into_resolved(b).as_bytes().to_vec();
		(by_ref, in_place, by_val, b.as_bytes().to_vec())
	})
}

pub fn c06_case(base: &[u8], r: &[u8], refs: &FamRefs, out: &mut Vec<Violation>) -> u64 {
	let bp = syntax::split(base);
	let rp = syntax::split(r);
	let t = resolve::resolve(&bp, &rp);
	let unamb = resolve::unambiguous(&t.parts);
	let rl = pathlist::split(&rp.path);
	let mk = |what: &str| {
		Violation::new("C06", "resolve", what, c06_input(base, r))
			.feat("branch", t.branch.name())
			.feat("ref_path_ends_in_dot_segment", pathlist::ends_in_dot_segment(&rl.segs))
			.feat("ref_path_has_empty_segment", pathlist::has_empty_segment(&rl.segs))
			.feat("base_has_authority", bp.authority.is_some())
			.feat("base_path_empty", bp.path.is_empty())
			.feat("ambiguous_target", !unamb)
			.feat("errata_territory", t.errata_territory)
	};
	let want_text = syntax::recompose(&t.parts);
	match c06_observe(base, r) {
		Guard::Ok((by_ref, in_place, by_val, base_after)) => {
			if by_ref != in_place || by_ref != by_val {
				out.push(mk("entry-points-differ").obs(format!("resolved {:?}, resolve {:?}, into_resolved {:?}", lossy(&by_ref), lossy(&in_place), lossy(&by_val))).exp("identical text"));
				return 1;
			}
			if base_after != base {
				out.push(mk("base-changed").obs(lossy(&base_after)).exp(lossy(base)));
			}
			let got = by_ref;
			if !valid(Kind::Ri, &got) || !refs.valid(Kind::Ri, &got) {
				out.push(mk("valid").obs(format!("{:?}", lossy(&got))).exp(format!("a valid URI/IRI (RFC target {:?})", lossy(&want_text))));
				return 1;
			}
			let gp = syntax::split(&got);
			// Corner left open by the statement: a relative target path (Errata 4547 territory)
			// whose normalised segment sequence starts with an empty segment has no faithful
			// plain text (it would read as absolute); like the ambiguous case it is judged up to
			// shielding/collapsing of its leading empty segments.
			let rel_leading_empty = t.errata_territory && {
				let src = if t.branch == resolve::Branch::RefHasScheme { rp.path.clone() } else { resolve::merge(&bp, &rp.path) };
				let l = pathlist::split(&src);
				!l.abs && pathlist::remove_dot_segments_list(false, &l.segs).first().map(|x| x.is_empty()).unwrap_or(false)
			};
			if unamb && !rel_leading_empty {
				let mut ok = got == want_text;
				if !ok && t.errata_territory {
					// Errata 4547 territory: the same rendering with a legal '.' shield is accepted
					let tl = pathlist::split(&t.parts.path);
					if pathlist::shield_allowed(&tl.segs) {
						let mut alt = t.parts.clone();
						alt.path = pathlist::shielded(tl.abs, &tl.segs);
						ok = got == syntax::recompose(&alt);
					}
				}
				if !ok {
					out.push(mk("target").obs(format!("{:?}", lossy(&got))).exp(format!("{:?}", lossy(&want_text))));
				}
			} else {
				// ambiguous RFC target (no authority, path starting with "//"): RFC scheme,
				// authority, query, fragment and an unambiguous rendering of the RFC path
				if gp.scheme != t.parts.scheme || gp.authority != t.parts.authority || gp.query != t.parts.query || gp.fragment != t.parts.fragment {
					out.push(mk("ambiguous:components").obs(format!("{:?}: {}", lossy(&got), fmt_parts(&gp))).exp(format!("scheme/authority/query/fragment of {}", fmt_parts(&t.parts))));
				} else {
					let strip = |segs: &[Vec<u8>]| -> Vec<Vec<u8>> {
						let mut s = segs;
						if s.len() >= 2 && s[0] == b"." {
							s = &s[1..];
						}
						let k = s.iter().take_while(|x| x.is_empty()).count();
						s[k..].to_vec()
					};
					let want_l = pathlist::split(&t.parts.path);
					let got_l = pathlist::split(&gp.path);
					let ok = (got_l.abs || rel_leading_empty) && !gp.path.starts_with(b"//") && strip(&got_l.segs) == strip(&want_l.segs);
					if !ok {
						out.push(mk("ambiguous:path").obs(format!("{:?}", lossy(&got))).exp(format!("an absolute, unambiguous rendering of path {:?}", lossy(&t.parts.path))));
					}
				}
			}
		}
		Guard::Panic(pm) => out.push(mk("panic").feat("panic_at", panic_site(&pm)).obs(format!("panic: {pm}")).exp("no panic")),
	}
	1
}

pub fn c06_replay(input: &Value, refs: &FamRefs) -> Vec<Violation> {
	let mut out = Vec::new();
	if let (Some(b), Some(r)) = (json_bytes(&input["base"]), json_bytes(&input["reference"])) {
		c06_case(&b, &r, refs, &mut out);
	}
	out
}
