// C04: safe mutation never breaks well-formedness (explicit-state search over all mutators).

#[derive(Clone, Debug, PartialEq, Eq, Hash, PartialOrd, Ord)]
pub enum MOp {
	Set(SOp),
	Path(Op),
	Auth(AOp),
	Resolve(Vec<u8>),
}

impl MOp {
	pub fn name(&self) -> String {
		match self {
			MOp::Set(o) => o.name().to_string(),
			MOp::Path(o) => format!("path_mut.{}", o.name()),
			MOp::Auth(o) => format!("authority_mut.{}", o.name()),
			MOp::Resolve(_) => "resolve".to_string(),
		}
	}
	pub fn to_json(&self) -> Value {
		match self {
			MOp::Set(o) => json!({"set": o.to_json()}),
			MOp::Path(o) => json!({"path": o.to_json()}),
			MOp::Auth(o) => json!({"auth": o.to_json()}),
			MOp::Resolve(b) => json!({"resolve": bytes_json(b)}),
		}
	}
	pub fn from_json(v: &Value) -> Option<MOp> {
		if let Some(x) = v.get("set") {
			return SOp::from_json(x).map(MOp::Set);
		}
		if let Some(x) = v.get("path") {
			return Op::from_json(x).map(MOp::Path);
		}
		if let Some(x) = v.get("auth") {
			return AOp::from_json(x).map(MOp::Auth);
		}
		if let Some(x) = v.get("resolve") {
			return json_bytes(x).map(MOp::Resolve);
		}
		None
	}
}

#[derive(Clone, Copy, Debug, PartialEq, Eq, Hash, PartialOrd, Ord)]
pub enum BufTy {
	RiRefBuf,
	RiBuf,
	PathBuf,
}

impl BufTy {
	pub fn name(self) -> &'static str {
		match self {
			BufTy::RiRefBuf => "RiRefBuf",
			BufTy::RiBuf => "RiBuf",
			BufTy::PathBuf => "PathBuf",
		}
	}
	pub fn parse(s: &str) -> Option<BufTy> {
		match s {
			"RiRefBuf" => Some(BufTy::RiRefBuf),
			"RiBuf" => Some(BufTy::RiBuf),
			"PathBuf" => Some(BufTy::PathBuf),
			_ => None,
		}
	}
	pub fn kind(self) -> Kind {
		match self {
			BufTy::RiRefBuf => Kind::RiRef,
			BufTy::RiBuf => Kind::Ri,
			BufTy::PathBuf => Kind::Path,
		}
	}
}

/// Is `op` an operation of the buffer type in the given state?
pub fn c04_applicable(ty: BufTy, state: &[u8], op: &MOp) -> bool {
	match (ty, op) {
		(BufTy::PathBuf, MOp::Path(_)) => true,
		(BufTy::PathBuf, _) => false,
		(BufTy::RiBuf, MOp::Set(SOp::Scheme(None))) => false,
		(BufTy::RiBuf, MOp::Resolve(_)) => false,
		(_, MOp::Auth(_)) => syntax::split(state).authority.is_some(),
		_ => true,
	}
}

/// Execute `op` on a fresh buffer holding `state`; return the new text and run every
/// accessor on the result (they trust the buffer without re-checking it).
fn c04_exec(ty: BufTy, state: &[u8], op: &MOp) -> Vec<u8> {
	c04_exec_seq(ty, state, std::slice::from_ref(op), false)
}

/// Execute a sequence of operations on ONE live buffer holding `state` at first (exact or spare
/// capacity); return the final text and run every accessor on the result.
fn c04_exec_seq(ty: BufTy, state: &[u8], ops: &[MOp], spare_capacity: bool) -> Vec<u8> {
	fn touch_ref(r: &RiRef) {
		let p = r.parts();
		let _ = (r.scheme(), r.query(), r.fragment(), p.path.as_bytes().len());
		if let Some(a) = r.authority() {
			let ap = a.parts();
			let _ = (a.user_info(), a.host().as_bytes().len(), a.port(), ap.host.as_bytes().len());
		}
		let path = r.path();
		let _ = (path.segments().count(), path.segments().rev().count(), path.normalized_segments().len(), path.first(), path.last(), path.file_name(), path.directory().as_bytes().len(), path.parent().map(|p| p.as_bytes().len()));
		let _ = r.base().as_bytes().len();
	}
	match ty {
		BufTy::RiRefBuf => {
			let mut b = if spare_capacity { rirefbuf_spare(state) } else { rirefbuf_of(state) }.expect("state is a valid reference");
			for op in ops {
				match op {
					MOp::Set(o) => apply_setter_riref(&mut b, o),
					MOp::Path(o) => {
						let mut h = b.path_mut();
						apply_pathmut(&mut h, o);
						let _ = h.as_bytes().len();
					}
					MOp::Auth(o) => {
						let mut h = b.authority_mut().expect("state has an authority");
						apply_authmut(&mut h, o);
						let _ = h.as_authority().as_bytes().len();
					}
					MOp::Resolve(base) => {
						let base = Ri::new(inp(base).expect("utf8")).ok().expect("valid base");
						b.resolve(base);
					}
				}
			}
			let t = b.as_bytes().to_vec();
			if std::str::from_utf8(&t).is_ok() || FAMILY == Family::Uri {
				touch_ref(&b);
			}
			t
		}
		BufTy::RiBuf => {
			let mut b = if spare_capacity { ribuf_spare(state) } else { ribuf_of(state) }.expect("state is a valid URI/IRI");
			for op in ops {
				match op {
					MOp::Set(o) => apply_setter_ri(&mut b, o),
					MOp::Path(o) => {
						let mut h = b.path_mut();
						apply_pathmut(&mut h, o);
						let _ = h.as_bytes().len();
					}
					MOp::Auth(o) => {
						let mut h = b.authority_mut().expect("state has an authority");
						apply_authmut(&mut h, o);
						let _ = h.as_authority().as_bytes().len();
					}
					MOp::Resolve(_) => unreachable!(),
				}
			}
			let t = b.as_bytes().to_vec();
			if std::str::from_utf8(&t).is_ok() || FAMILY == Family::Uri {
				touch_ref(b.as_ref());
				let _ = b.scheme().as_bytes().len();
			}
			t
		}
		BufTy::PathBuf => {
			let mut b = if spare_capacity { pathbuf_spare(state) } else { pathbuf_of(state) }.expect("state is a valid path");
			for op in ops {
				match op {
					MOp::Path(o) => apply_pathbuf(&mut b, o),
					_ => unreachable!(),
				}
			}
			let t = b.as_bytes().to_vec();
			let _ = (b.segments().count(), b.normalized_segments().len(), b.parent().map(|p| p.as_bytes().len()));
			t
		}
	}
}

pub fn c04_input(ty: BufTy, init: &[u8], history: &[MOp], op: &MOp) -> Value {
	let mut ops: Vec<Value> = history.iter().map(|o| o.to_json()).collect();
	ops.push(op.to_json());
	json!({"fam": fam_name(), "buffer_type": ty.name(), "initial": bytes_json(init), "ops": ops})
}

/// One transition. Returns the successor text when the invariant holds.
pub fn c04_step(ty: BufTy, init: &[u8], history: &[MOp], state: &[u8], op: &MOp, refs: &FamRefs, out: &mut Vec<Violation>) -> Option<Vec<u8>> {
	let mk = |what: &str| {
		let sp = syntax::split(state);
		Violation::new("C04", "invariant", what, c04_input(ty, init, history, op))
			.feat("op", op.name())
			.feat("buffer_type", ty.name())
			.feat("state_has_authority", ty != BufTy::PathBuf && sp.authority.is_some())
			.feat("state_has_scheme", ty != BufTy::PathBuf && sp.scheme.is_some())
	};
	match guard(|| c04_exec(ty, state, op)) {
		Guard::Ok(t) => {
			if std::str::from_utf8(&t).is_err() {
				out.push(mk("utf8").obs(format!("{:?}", lossy(&t))).exp("well-formed UTF-8"));
				return None;
			}
			if !valid(ty.kind(), &t) || !refs.valid(ty.kind(), &t) {
				out.push(mk("re-parse").obs(format!("{:?} -> {:?}", lossy(state), lossy(&t))).exp(format!("a valid {}", ty.kind().name())));
				return None;
			}
			// the buffer's spare capacity is hidden state of the splice primitives: the same
			// call on a buffer with spare capacity, and the whole history replayed on ONE live
			// buffer (exact and spare), must give the same text
			let mut variants: Vec<(&str, Guard<Vec<u8>>)> = vec![("spare-capacity", guard(|| c04_exec_seq(ty, state, std::slice::from_ref(op), true)))];
			if !history.is_empty() {
				let mut all: Vec<MOp> = history.to_vec();
				all.push(op.clone());
				variants.push(("one-live-buffer", guard(|| c04_exec_seq(ty, init, &all, false))));
				variants.push(("one-live-buffer+spare-capacity", guard(|| c04_exec_seq(ty, init, &all, true))));
			}
			for (name, g) in variants {
				match g {
					Guard::Ok(t2) => {
						if t2 != t {
							out.push(mk("buffer-capacity").feat("variant", name).obs(format!("{name}: {:?}", lossy(&t2))).exp(format!("{:?} (fresh exact-capacity buffer)", lossy(&t))));
							return None;
						}
					}
					Guard::Panic(pm) => {
						out.push(mk("panic").feat("variant", name).feat("panic_at", panic_site(&pm)).obs(format!("{name}: panic: {pm}")).exp("no panic"));
						return None;
					}
				}
			}
			Some(t)
		}
		Guard::Panic(pm) => {
			out.push(mk("panic").feat("panic_at", panic_site(&pm)).obs(format!("{:?}: panic: {pm}", lossy(state))).exp("no panic"));
			None
		}
	}
}

pub fn c04_replay(input: &Value, refs: &FamRefs) -> Vec<Violation> {
	let mut out = Vec::new();
	let (ty, init) = match (input["buffer_type"].as_str().and_then(BufTy::parse), json_bytes(&input["initial"])) {
		(Some(t), Some(i)) => (t, i),
		_ => return out,
	};
	let ops: Vec<MOp> = input["ops"].as_array().map(|a| a.iter().filter_map(MOp::from_json).collect()).unwrap_or_default();
	let mut cur = init.clone();
	for (i, op) in ops.iter().enumerate() {
		let mut tmp = Vec::new();
		if !c04_applicable(ty, &cur, op) {
			return out;
		}
		let r = c04_step(ty, &init, &ops[..i], &cur, op, refs, &mut tmp);
		if i + 1 == ops.len() {
			out.extend(tmp);
		} else {
			match r {
				Some(t) => cur = t,
				None => {
					out.extend(tmp);
					return out;
				}
			}
		}
	}
	out
}
