// C13 (differential half): family-independent observations of the same operation.

/// Read-only observation of one reference text.
pub fn c13_obs_value(t: &[u8]) -> String {
	match guard(|| {
		let r = RiRef::new(inp(t).unwrap()).ok().unwrap();
		let p = r.path();
		let acc = fmt_parts(&parts_of_riref_accessors(r));
		let pp = fmt_parts(&parts_of_riref_parts(r));
		let auth = r.authority().map(|a| format!("{} | {}", fmt_auth(&auth_accessors(a)), fmt_auth(&auth_parts(a))));
		format!(
			"acc[{acc}] parts[{pp}] auth[{:?}] base[{}] norm[{}] nsegs{:?} segs{} first{:?} last{:?} file{:?} dir[{}] parent{:?}",
			auth,
			lossy(r.base().as_bytes()),
			lossy(p.normalized().as_bytes()),
			p.normalized_segments().map(|s| lossy(s.as_bytes())).collect::<Vec<_>>(),
			p.segments().count(),
			p.first().map(|s| lossy(s.as_bytes())),
			p.last().map(|s| lossy(s.as_bytes())),
			p.file_name().map(|s| lossy(s.as_bytes())),
			lossy(p.directory().as_bytes()),
			p.parent().map(|s| lossy(s.as_bytes())),
		)
	}) {
		Guard::Ok(s) => s,
		Guard::Panic(pm) => format!("panic: {pm}"),
	}
}

/// Observation of an ordered pair of reference texts: comparison, hashing, resolution,
/// relativisation, suffix.
pub fn c13_obs_pair(a: &[u8], b: &[u8]) -> String {
	let cmp = match c07_pair_obs(Kind::RiRef, a, b) {
		Guard::Ok(o) => format!("{:?}", o),
		Guard::Panic(pm) => format!("panic: {pm}"),
	};
	let b_has_scheme = syntax::split(b).scheme.is_some();
	let res = if b_has_scheme {
		match c06_observe(b, a) {
			Guard::Ok((x, y, z, _)) => format!("{} / {} / {}", lossy(&x), lossy(&y), lossy(&z)),
			Guard::Panic(pm) => format!("panic: {pm}"),
		}
	} else {
		"-".into()
	};
	let rel = match guard(|| {
		let ra = RiRef::new(inp(a).unwrap()).ok().unwrap();
		let rb = RiRef::new(inp(b).unwrap()).ok().unwrap();
		let rel = ra.relative_to(rb);
		let suf = ra.suffix(rb).map(|(p, q, f)| format!("{} {:?} {:?}", lossy(p.as_bytes()), q.map(|x| lossy(x.as_bytes())), f.map(|x| lossy(x.as_bytes()))));
		// the same two calls on the non-reference type when both texts have a scheme
		let typed = match (Ri::new(inp(a).unwrap()), Ri::new(inp(b).unwrap())) {
			(Ok(ia), Ok(ib)) => {
				let rel2 = ia.relative_to(ib);
				let suf2 = ia.suffix(ib).map(|(p, q, f)| format!("{} {:?} {:?}", lossy(p.as_bytes()), q.map(|x| lossy(x.as_bytes())), f.map(|x| lossy(x.as_bytes()))));
				format!("Ri: rel[{}] suffix[{:?}] base[{}]", lossy(rel2.as_bytes()), suf2, lossy(ia.base().as_bytes()))
			}
			_ => "-".into(),
		};
		format!("rel[{}] suffix[{:?}] {typed}", lossy(rel.as_bytes()), suf)
	}) {
		Guard::Ok(s) => s,
		Guard::Panic(pm) => format!("panic: {pm}"),
	};
	// the provided comparisons between the reference / non-reference, borrowed / owned forms
	let cross = match c07_cross_obs(a, b) {
		Guard::Ok(list) => format!("{:?}", list),
		Guard::Panic(pm) => format!("panic: {pm}"),
	};
	// the same comparison component by component (==, !=, cmp, partial_cmp and three hashers)
	let (pa, pb) = (syntax::split(a), syntax::split(b));
	let mut comps = String::new();
	let pairs: [(Kind, Option<&Vec<u8>>, Option<&Vec<u8>>); 4] = [
		(Kind::Authority, pa.authority.as_ref(), pb.authority.as_ref()),
		(Kind::Path, Some(&pa.path), Some(&pb.path)),
		(Kind::Query, pa.query.as_ref(), pb.query.as_ref()),
		(Kind::Fragment, pa.fragment.as_ref(), pb.fragment.as_ref()),
	];
	for (k, x, y) in pairs {
		if let (Some(x), Some(y)) = (x, y) {
			match c07_pair_obs(k, x, y) {
				Guard::Ok(o) => comps.push_str(&format!(" {}[{:?}]", k.name(), o)),
				Guard::Panic(pm) => comps.push_str(&format!(" {}[panic: {pm}]", k.name())),
			}
		}
	}
	format!("cmp[{cmp}] cross[{cross}] components[{comps}] resolve[{res}] {rel}")
}

/// Observation of one mutation (given as JSON so that both families decode the same op).
pub fn c13_obs_mut(t: &[u8], op: &Value) -> String {
	let op = match MOp::from_json(op) {
		Some(o) => o,
		None => return "bad-op".into(),
	};
	// the same operation on every owned type that offers it: the reference buffer, the
	// non-reference buffer (when there is a scheme) and the stand-alone path buffer (path edits)
	let path = syntax::split(t).path;
	let mut out = String::new();
	for (ty, text) in [(BufTy::RiRefBuf, t), (BufTy::RiBuf, t), (BufTy::PathBuf, &path[..])] {
		if ty == BufTy::RiBuf && syntax::split(t).scheme.is_none() {
			continue;
		}
		if ty == BufTy::PathBuf && !valid(Kind::Path, text) {
			continue;
		}
		if !c04_applicable(ty, text, &op) {
			out.push_str(&format!("{}: n/a; ", ty.name()));
			continue;
		}
		match guard(|| c04_exec(ty, text, &op)) {
			Guard::Ok(x) => out.push_str(&format!("{}: {}; ", ty.name(), lossy(&x))),
			Guard::Panic(pm) => out.push_str(&format!("{}: panic: {pm}; ", ty.name())),
		}
	}
	out
}
