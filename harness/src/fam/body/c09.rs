// C09: dot-segment normalisation (iterator, normalised copy, in-place rewrite; embedded).

pub fn pathbuf_of(b: &[u8]) -> Option<PathBuf> {
	own(b.to_vec()).and_then(|o| PathBuf::new(o).ok())
}

pub fn rirefbuf_of(b: &[u8]) -> Option<RiRefBuf> {
	own(b.to_vec()).and_then(|o| RiRefBuf::new(o).ok())
}

/// The same buffers with spare capacity (as left by an earlier shrinking edit, `with_capacity`,
/// `push_str`, `format!`): the splice primitives take a different route when no reallocation
/// is needed.
pub fn spare(b: &[u8]) -> Vec<u8> {
	let mut v = Vec::with_capacity(b.len() + 64);
	v.extend_from_slice(b);
	v
}

pub fn rirefbuf_spare(b: &[u8]) -> Option<RiRefBuf> {
	own(spare(b)).and_then(|o| RiRefBuf::new(o).ok())
}

pub fn ribuf_spare(b: &[u8]) -> Option<RiBuf> {
	own(spare(b)).and_then(|o| RiBuf::new(o).ok())
}

pub fn pathbuf_spare(b: &[u8]) -> Option<PathBuf> {
	own(spare(b)).and_then(|o| PathBuf::new(o).ok())
}

pub fn ribuf_of(b: &[u8]) -> Option<RiBuf> {
	own(b.to_vec()).and_then(|o| RiBuf::new(o).ok())
}

fn segs_dbg(v: &[Vec<u8>]) -> String {
	format!("{:?}", v.iter().map(|x| lossy(x)).collect::<Vec<_>>())
}

/// Features of a path, from the list model only.
pub fn path_features(v: Violation, m: &pathlist::PathList) -> Violation {
	let norm = pathlist::normalize_segments(m.abs, &m.segs);
	v.feat("abs", m.abs)
		.feat("norm_first_empty", norm.first().map(|s| s.is_empty()).unwrap_or(false))
		.feat("norm_first_colon", norm.first().map(|s| s.contains(&b':')).unwrap_or(false))
		.feat("norm_is_single_empty", norm.len() == 1 && norm[0].is_empty())
}

pub fn c09_case(text: &[u8], out: &mut Vec<Violation>) -> u64 {
	let mut evals = 0u64;
	let m = pathlist::split(text);
	let input = json!({"fam": fam_name(), "path": bytes_json(text)});
	let mk = |op: &str| path_features(Violation::new("C09", "path", op, input.clone()), &m);
	let s = match inp(text) {
		Some(s) => s,
		None => return 0,
	};
	let p = match Path::new(s) {
		Ok(p) => p,
		Err(_) => {
			out.push(mk("new").obs("rejected").exp("accepted"));
			return 1;
		}
	};
	let norm = pathlist::normalize_segments(m.abs, &m.segs);
	// (1) iterator
	evals += 1;
	match guard(|| {
		let fwd: Vec<Vec<u8>> = p.normalized_segments().map(|s| s.as_bytes().to_vec()).collect();
		let bwd: Vec<Vec<u8>> = p.normalized_segments().rev().map(|s| s.as_bytes().to_vec()).collect();
		(fwd, bwd, p.normalized_segments().len())
	}) {
		Guard::Ok((fwd, bwd, len)) => {
			if fwd != norm {
				out.push(mk("normalized_segments").obs(segs_dbg(&fwd)).exp(segs_dbg(&norm)));
			}
			let mut b2 = bwd.clone();
			b2.reverse();
			if b2 != norm {
				out.push(mk("normalized_segments.rev").obs(segs_dbg(&bwd)).exp("reverse of the normalised sequence"));
			}
			if len != norm.len() {
				out.push(mk("normalized_segments.len").obs(len).exp(norm.len()));
			}
		}
		Guard::Panic(pm) => out.push(mk("normalized_segments").feat("panic_at", panic_site(&pm)).obs(format!("panic: {pm}")).exp("no panic")),
	}
	// (2) normalised copy: RFC 3986 5.2.4 rendering (trailing '/' after a final dot segment)
	let want_copy = pathlist::remove_dot_segments_list(m.abs, &m.segs);
	evals += 1;
	match guard(|| {
		let n1 = p.normalized();
		let t1 = n1.as_bytes().to_vec();
		let n2 = n1.normalized();
		(t1, n2.as_bytes().to_vec())
	}) {
		Guard::Ok((t1, t2)) => {
			if !valid(Kind::Path, &t1) {
				out.push(mk("normalized:valid").obs(format!("{:?}", lossy(&t1))).exp("a valid path"));
			} else if !pathlist::accepts(&t1, m.abs, &want_copy) {
				out.push(
					mk("normalized")
						.obs(format!("{:?}", lossy(&t1)))
						.exp(format!("a rendering of abs={} segs={}", m.abs, segs_dbg(&want_copy))),
				);
			} else if t2 != t1 {
				out.push(mk("normalized:idempotent").obs(format!("{:?} then {:?}", lossy(&t1), lossy(&t2))).exp("same text"));
			}
		}
		Guard::Panic(pm) => out.push(mk("normalized").feat("panic_at", panic_site(&pm)).obs(format!("panic: {pm}")).exp("no panic")),
	}
	// (3) in-place, stand-alone buffer
	evals += 1;
	match guard(|| {
		let mut b = pathbuf_of(text).expect("valid path");
		b.normalize();
		let t1 = b.as_bytes().to_vec();
		b.normalize();
		(t1, b.as_bytes().to_vec())
	}) {
		Guard::Ok((t1, t2)) => {
			if !valid(Kind::Path, &t1) {
				out.push(mk("PathBuf::normalize:valid").obs(format!("{:?}", lossy(&t1))).exp("a valid path"));
			} else if !pathlist::accepts(&t1, m.abs, &norm) {
				out.push(
					mk("PathBuf::normalize")
						.obs(format!("{:?}", lossy(&t1)))
						.exp(format!("a rendering of abs={} segs={}", m.abs, segs_dbg(&norm))),
				);
			} else if t2 != t1 {
				out.push(mk("PathBuf::normalize:idempotent").obs(format!("{:?} then {:?}", lossy(&t1), lossy(&t2))).exp("same text"));
			}
		}
		Guard::Panic(pm) => out.push(mk("PathBuf::normalize").feat("panic_at", panic_site(&pm)).obs(format!("panic: {pm}")).exp("no panic")),
	}
	evals
}

/// Embedded normalisation: `ctx_text` is a valid reference whose path is the path under test.
pub fn c09_embedded_case(ctx_text: &[u8], out: &mut Vec<Violation>) -> u64 {
	let before = syntax::split(ctx_text);
	let m = pathlist::split(&before.path);
	let input = json!({"fam": fam_name(), "text": bytes_json(ctx_text)});
	let mk = |op: &str| {
		ref_features(path_features(Violation::new("C09", "embedded", op, input.clone()), &m), &before)
	};
	let norm = pathlist::normalize_segments(m.abs, &m.segs);
	match guard(|| {
		let mut b = rirefbuf_of(ctx_text).expect("valid reference");
		b.path_mut().normalize();
		let t1 = b.as_bytes().to_vec();
		b.path_mut().normalize();
		(t1, b.as_bytes().to_vec())
	}) {
		Guard::Ok((t1, t2)) => {
			if !valid(Kind::RiRef, &t1) {
				out.push(mk("path_mut.normalize:valid").obs(format!("{:?}", lossy(&t1))).exp("a valid reference"));
				return 1;
			}
			let after = syntax::split(&t1);
			if after.scheme != before.scheme || after.authority != before.authority || after.query != before.query || after.fragment != before.fragment {
				out.push(mk("path_mut.normalize:frame").obs(fmt_parts(&after)).exp(format!("only the path changes: {}", fmt_parts(&before))));
			} else if !pathlist::accepts(&after.path, m.abs, &norm) {
				out.push(
					mk("path_mut.normalize")
						.obs(format!("path {:?} in {:?}", lossy(&after.path), lossy(&t1)))
						.exp(format!("a rendering of abs={} segs={}", m.abs, segs_dbg(&norm))),
				);
			} else if t2 != t1 {
				out.push(mk("path_mut.normalize:idempotent").obs(format!("{:?} then {:?}", lossy(&t1), lossy(&t2))).exp("same text"));
			}
			// the same call through a handle built over the raw buffer (where the family has one)
			let (ps, pe) = syntax::split_ranges(ctx_text).path;
			match guard(|| raw_path_handle(ctx_text, ps, pe, &mut |h| h.normalize())) {
				Guard::Ok(Some((raw, view))) => {
					let (rs, re) = syntax::split_ranges(&raw).path;
					if raw != t1 {
						out.push(mk("PathMut::new.normalize").obs(format!("{:?}", lossy(&raw))).exp(format!("{:?} as through path_mut()", lossy(&t1))));
					} else if view != raw[rs..re] {
						out.push(mk("PathMut::new.normalize:view").obs(format!("{:?}", lossy(&view))).exp(format!("{:?}", lossy(&raw[rs..re]))));
					}
				}
				Guard::Ok(None) => (),
				Guard::Panic(pm) => out.push(mk("PathMut::new.normalize").feat("panic_at", panic_site(&pm)).obs(format!("panic: {pm}")).exp("no panic")),
			}
		}
		Guard::Panic(pm) => out.push(mk("path_mut.normalize").feat("panic_at", panic_site(&pm)).obs(format!("panic: {pm}")).exp("no panic")),
	}
	1
}

/// Normalisation through a REUSED handle: normalize, edit, normalize again through the same
/// `PathMut` must equal the same calls through fresh handles (the handle must not remember
/// that the path "is normalised").
pub fn c09_reused_handle_case(text: &[u8], out: &mut Vec<Violation>) -> u64 {
	let mut n = 0;
	let segs: [&[u8]; 5] = [b"..", b".", b"", b"a", b"a:b"];
	for seg in segs {
		for clear_first in [false, true] {
			n += 1;
			let input = json!({"fam": fam_name(), "path": bytes_json(text), "pushed": bytes_json(seg), "clear_first": clear_first});
			let r = guard(|| {
				let s = Segment::new(inp(seg).unwrap()).ok().unwrap();
				// one handle
				let mut b1 = pathbuf_of(text).expect("valid path");
				{
					let mut h = b1.as_path_mut();
					h.normalize();
					if clear_first {
						h.clear();
					}
					h.push(s);
					h.normalize();
				}
				// fresh handle per call
				let mut b2 = pathbuf_of(text).expect("valid path");
				b2.normalize();
				if clear_first {
					b2.clear();
				}
				b2.push(s);
				b2.normalize();
				(b1.as_bytes().to_vec(), b2.as_bytes().to_vec())
			});
			match r {
				Guard::Ok((one, fresh)) => {
					if one != fresh {
						out.push(
							Violation::new("C09", "reused-handle", "normalize-after-edit", input)
								.obs(format!("one handle: {:?}", lossy(&one)))
								.exp(format!("fresh handles: {:?}", lossy(&fresh))),
						);
					}
				}
				Guard::Panic(pm) => out.push(Violation::new("C09", "reused-handle", "panic", input).feat("panic_at", panic_site(&pm)).obs(format!("panic: {pm}")).exp("no panic")),
			}
		}
	}
	n
}

/// The same scenario on the path handle of a whole reference (the handle's window then starts
/// after a scheme / authority, and an edit may have to insert or remove the leading '/').
pub fn c09_reused_handle_embedded_case(text: &[u8], out: &mut Vec<Violation>) -> u64 {
	let mut n = 0;
	let segs: [&[u8]; 5] = [b"..", b".", b"", b"a", b"a:b"];
	for seg in segs {
		for clear_first in [false, true] {
			n += 1;
			let input = json!({"fam": fam_name(), "text": bytes_json(text), "pushed": bytes_json(seg), "clear_first": clear_first});
			let r = guard(|| {
				let s = Segment::new(inp(seg).unwrap()).ok().unwrap();
				let mut b1 = rirefbuf_of(text).expect("valid reference");
				{
					let mut h = b1.path_mut();
					if clear_first {
						h.clear();
					}
					h.push(s);
					h.normalize();
					h.push(s);
					h.normalize();
				}
				let mut b2 = rirefbuf_of(text).expect("valid reference");
				if clear_first {
					b2.path_mut().clear();
				}
				b2.path_mut().push(s);
				b2.path_mut().normalize();
				b2.path_mut().push(s);
				b2.path_mut().normalize();
				(b1.as_bytes().to_vec(), b2.as_bytes().to_vec())
			});
			match r {
				Guard::Ok((one, fresh)) => {
					if one != fresh {
						out.push(
							Violation::new("C09", "reused-handle-embedded", "normalize-after-edit", input)
								.obs(format!("one handle: {:?}", lossy(&one)))
								.exp(format!("fresh handles: {:?}", lossy(&fresh))),
						);
					}
				}
				Guard::Panic(pm) => out.push(Violation::new("C09", "reused-handle-embedded", "panic", input).feat("panic_at", panic_site(&pm)).obs(format!("panic: {pm}")).exp("no panic")),
			}
		}
	}
	n
}

pub fn c09_replay(check: &str, input: &Value) -> Vec<Violation> {
	let mut out = Vec::new();
	match check {
		"reused-handle-embedded" => {
			if let Some(t) = json_bytes(&input["text"]) {
				let mut all = Vec::new();
				c09_reused_handle_embedded_case(&t, &mut all);
				for v in all {
					if v.input == *input {
						out.push(v);
					}
				}
			}
		}
		"reused-handle" => {
			if let Some(t) = json_bytes(&input["path"]) {
				let mut all = Vec::new();
				c09_reused_handle_case(&t, &mut all);
				// keep the scenario named in the input
				for v in all {
					if v.input == *input {
						out.push(v);
					}
				}
			}
		}
		"embedded" => {
			if let Some(t) = json_bytes(&input["text"]) {
				c09_embedded_case(&t, &mut out);
			}
		}
		_ => {
			if let Some(t) = json_bytes(&input["path"]) {
				c09_case(&t, &mut out);
			}
		}
	}
	out
}
