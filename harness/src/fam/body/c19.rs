// C19: percent-decoded views of components are total and faithful.

pub fn c19_input(kind: Kind, t: &[u8], embedded: bool) -> Value {
	json!({"fam": fam_name(), "kind": kind.name(), "text": bytes_json(t), "embedded": embedded})
}

/// The component value: stand-alone, or obtained from a parsed reference that contains it.
fn c19_with_component<R>(kind: Kind, t: &[u8], embedded: bool, f: impl FnOnce(&pct_str::PctStr, &pct_str::PctStr) -> R) -> Option<R> {
	let s = inp(t)?;
	if !embedded {
		return Some(match kind {
			Kind::Segment => {
				let c = Segment::new(s).ok()?;
				f(c.as_pct_str(), &**c)
			}
			Kind::Host => {
				let c = Host::new(s).ok()?;
				f(c.as_pct_str(), &**c)
			}
			Kind::UserInfo => {
				let c = UserInfo::new(s).ok()?;
				f(c.as_pct_str(), &**c)
			}
			Kind::Query => {
				let c = Query::new(s).ok()?;
				f(c.as_pct_str(), &**c)
			}
			Kind::Fragment => {
				let c = Fragment::new(s).ok()?;
				f(c.as_pct_str(), &**c)
			}
			_ => return None,
		});
	}
	// embedded: s://U@H/S?Q#F with the component in its slot
	let mut text = b"s://".to_vec();
	match kind {
		Kind::UserInfo => {
			text.extend_from_slice(t);
			text.extend_from_slice(b"@h/p?q#f");
		}
		Kind::Host => {
			text.extend_from_slice(b"u@");
			text.extend_from_slice(t);
			text.extend_from_slice(b":8/p?q#f");
		}
		Kind::Segment => {
			text.extend_from_slice(b"h/a/");
			text.extend_from_slice(t);
			text.extend_from_slice(b"?q#f");
		}
		Kind::Query => {
			text.extend_from_slice(b"h/p?");
			text.extend_from_slice(t);
			text.extend_from_slice(b"#f");
		}
		Kind::Fragment => {
			text.extend_from_slice(b"h/p?q#");
			text.extend_from_slice(t);
		}
		_ => return None,
	}
	let r = Ri::new(inp(&text)?).ok()?;
	Some(match kind {
		// (the all-at-once decompositions must hand out the same component)
		Kind::UserInfo => {
			let c = r.authority()?.user_info()?;
			if c.as_bytes() != t || r.authority()?.parts().user_info?.as_bytes() != t || r.parts().authority?.parts().user_info?.as_bytes() != t {
				return None;
			}
			f(c.as_pct_str(), &**c)
		}
		Kind::Host => {
			let c = r.authority()?.host();
			if c.as_bytes() != t || r.authority()?.parts().host.as_bytes() != t || r.parts().authority?.parts().host.as_bytes() != t {
				return None;
			}
			f(c.as_pct_str(), &**c)
		}
		Kind::Segment => {
			let c = r.path().last()?;
			if c.as_bytes() != t {
				return None;
			}
			f(c.as_pct_str(), &**c)
		}
		Kind::Query => {
			let c = r.query()?;
			if c.as_bytes() != t || r.parts().query?.as_bytes() != t {
				return None;
			}
			f(c.as_pct_str(), &**c)
		}
		Kind::Fragment => {
			let c = r.fragment()?;
			if c.as_bytes() != t || r.parts().fragment?.as_bytes() != t {
				return None;
			}
			f(c.as_pct_str(), &**c)
		}
		_ => return None,
	})
}

/// `others`: well-formed plain texts of the domain, for the "never equate ill-formed with
/// well-formed text" clause.
pub fn c19_case(kind: Kind, t: &[u8], embedded: bool, others: &[String], out: &mut Vec<Violation>) -> u64 {
	let octets = equiv::pct_octets(t);
	let wf = std::str::from_utf8(&octets).ok().map(|s| s.to_string());
	let mk = |what: &str| {
		Violation::new("C19", "views", what, c19_input(kind, t, embedded))
			.feat("octets_wellformed", wf.is_some())
			.feat("component", kind.name())
	};
	let mut n = 0u64;
	macro_rules! view {
		($name:expr, $f:expr, $check:expr) => {{
			n += 1;
			match guard(|| c19_with_component(kind, t, embedded, $f)) {
				Guard::Ok(Some(v)) => {
					let problem: Option<(String, String)> = $check(v);
					if let Some((obs, exp)) = problem {
						out.push(mk($name).feat("outcome", "wrong-value").obs(obs).exp(exp));
					}
				}
				Guard::Ok(None) => out.push(mk("obtain").obs("component could not be obtained").exp("a valid component")),
				Guard::Panic(pm) => out.push(mk($name).feat("outcome", "panic").feat("panic_at", panic_site(&pm)).obs(format!("panic: {pm}")).exp("terminates without panicking")),
			}
		}};
	}
	// octets: must be exactly the component's bytes with %XX replaced
	view!(
		"bytes",
		|p: &pct_str::PctStr, d: &pct_str::PctStr| (p.bytes().collect::<Vec<u8>>(), d.bytes().collect::<Vec<u8>>(), p.as_bytes().to_vec()),
		|(b1, b2, raw): (Vec<u8>, Vec<u8>, Vec<u8>)| {
			if b1 != octets || b2 != octets {
				Some((format!("{:02x?}", b1), format!("{:02x?}", octets)))
			} else if raw != t {
				Some((format!("view text {:?}", lossy(&raw)), format!("{:?}", lossy(t))))
			} else {
				None
			}
		}
	);
	view!("chars", |p: &pct_str::PctStr, _d: &pct_str::PctStr| p.chars().collect::<String>(), |s: String| {
		match &wf {
			Some(w) if *w == s => None,
			Some(w) => Some((format!("{:?}", s), format!("{:?}", w))),
			None => Some((format!("ill-formed octets decoded to {:?}", s), "no well-formed text (octets are not UTF-8)".to_string())),
		}
	});
	view!("len", |p: &pct_str::PctStr, _d: &pct_str::PctStr| p.len(), |l: usize| {
		match &wf {
			Some(w) if w.chars().count() == l => None,
			Some(w) => Some((format!("{l}"), format!("{}", w.chars().count()))),
			None => None, // any length is fine as long as it terminates
		}
	});
	view!("decode", |p: &pct_str::PctStr, _d: &pct_str::PctStr| p.decode(), |s: String| {
		match &wf {
			Some(w) if *w == s => None,
			Some(w) => Some((format!("{:?}", s), format!("{:?}", w))),
			None => Some((format!("ill-formed octets decoded to {:?}", s), "no well-formed text (octets are not UTF-8)".to_string())),
		}
	});
	view!(
		"eq_str",
		|p: &pct_str::PctStr, _d: &pct_str::PctStr| {
			let mut eqs: Vec<String> = Vec::new();
			for o in others {
				if *p == *o.as_str() {
					eqs.push(o.clone());
				}
			}
			eqs
		},
		|eqs: Vec<String>| {
			let want: Vec<String> = match &wf {
				Some(w) => others.iter().filter(|o| *o == w).cloned().collect(),
				None => vec![],
			};
			if eqs != want {
				Some((format!("== {:?}", eqs), format!("== {:?}", want)))
			} else {
				None
			}
		}
	);
	// owned: into_pct_string keeps the text
	if !embedded && kind != Kind::Segment {
		n += 1;
		let r = guard(|| {
			let o = own(t.to_vec())?;
			Some(match kind {
				Kind::Host => HostBuf::new(o).ok()?.into_pct_string().into_bytes(),
				Kind::UserInfo => UserInfoBuf::new(o).ok()?.into_pct_string().into_bytes(),
				Kind::Query => QueryBuf::new(o).ok()?.into_pct_string().into_bytes(),
				Kind::Fragment => FragmentBuf::new(o).ok()?.into_pct_string().into_bytes(),
				_ => return None,
			})
		});
		match r {
			Guard::Ok(Some(b)) if b == t => {}
			Guard::Ok(x) => out.push(mk("into_pct_string").obs(format!("{:?}", x.map(|b| lossy(&b)))).exp(format!("{:?}", lossy(t)))),
			Guard::Panic(pm) => out.push(mk("into_pct_string").feat("panic_at", panic_site(&pm)).obs(format!("panic: {pm}")).exp("no panic")),
		}
	}
	n
}

/// An ill-formed value against the well-formed text a lossy decoder would turn it into (every
/// offending octet run replaced by U+FFFD, spelled with escapes): the two components hold different
/// octets and must not compare equal.
pub fn c19_lossy_twin_case(kind: Kind, t: &[u8], out: &mut Vec<Violation>) -> u64 {
	let octets = equiv::pct_octets(t);
	if std::str::from_utf8(&octets).is_ok() {
		return 0;
	}
	let twin: Vec<u8> = String::from_utf8_lossy(&octets).as_bytes().iter().flat_map(|b| format!("%{:02X}", b).into_bytes()).collect();
	if !valid(kind, &twin) {
		return 0;
	}
	let mut input = c19_input(kind, t, false);
	input["lossy_twin"] = bytes_json(&twin);
	let mk = |what: &str| Violation::new("C19", "lossy-twin", what, input.clone()).feat("component", kind.name());
	for (x, y, dir) in [(t, &twin[..], "value == twin"), (&twin[..], t, "twin == value")] {
		match c07_pair_obs(kind, x, y) {
			Guard::Ok(o) => {
				if o.eq || !o.ne || o.cmp == std::cmp::Ordering::Equal {
					out.push(mk("illformed-equals-wellformed").feat("direction", dir).obs(format!("== {}, != {}, cmp {:?}", o.eq, o.ne, o.cmp)).exp("different octets: not equal"));
				}
			}
			Guard::Panic(pm) => out.push(mk("panic").feat("panic_at", panic_site(&pm)).obs(format!("panic: {pm}")).exp("terminates without panicking")),
		}
	}
	2
}

pub fn c19_replay(input: &Value, others: &[String]) -> Vec<Violation> {
	if !input["lossy_twin"].is_null() {
		let mut out = Vec::new();
		if let (Some(k), Some(t)) = (input["kind"].as_str().and_then(Kind::parse), json_bytes(&input["text"])) {
			c19_lossy_twin_case(k, &t, &mut out);
		}
		return out;
	}
	let mut out = Vec::new();
	if let (Some(k), Some(t)) = (input["kind"].as_str().and_then(Kind::parse), json_bytes(&input["text"])) {
		c19_case(k, &t, input["embedded"].as_bool().unwrap_or(false), others, &mut out);
	}
	out
}
