// C02: component accessors return the RFC 3986 decomposition.
// C03: authority accessors.

use crate::model::FamRefs;

pub fn text_input(t: &[u8]) -> Value {
	json!({"fam": fam_name(), "text": bytes_json(t)})
}

fn parts_of_riref_accessors(r: &RiRef) -> syntax::Parts {
	syntax::Parts {
		scheme: ob(r.scheme()),
		authority: ob(r.authority()),
		path: r.path().as_bytes().to_vec(),
		query: ob(r.query()),
		fragment: ob(r.fragment()),
	}
}

fn parts_of_riref_parts(r: &RiRef) -> syntax::Parts {
	let p = r.parts();
	syntax::Parts {
		scheme: ob(p.scheme),
		authority: ob(p.authority),
		path: p.path.as_bytes().to_vec(),
		query: ob(p.query),
		fragment: ob(p.fragment),
	}
}

fn parts_of_ri_accessors(r: &Ri) -> syntax::Parts {
	syntax::Parts {
		scheme: Some(r.scheme().as_bytes().to_vec()),
		authority: ob(r.authority()),
		path: r.path().as_bytes().to_vec(),
		query: ob(r.query()),
		fragment: ob(r.fragment()),
	}
}

fn parts_of_ri_parts(r: &Ri) -> syntax::Parts {
	let p = r.parts();
	syntax::Parts {
		scheme: Some(p.scheme.as_bytes().to_vec()),
		authority: ob(p.authority),
		path: p.path.as_bytes().to_vec(),
		query: ob(p.query),
		fragment: ob(p.fragment),
	}
}

pub fn fmt_parts(p: &syntax::Parts) -> String {
	format!(
		"scheme={} authority={} path={:?} query={} fragment={}",
		opt_lossy(&p.scheme),
		opt_lossy(&p.authority),
		lossy(&p.path),
		opt_lossy(&p.query),
		opt_lossy(&p.fragment)
	)
}

/// Structural features of a reference, from the reference decomposition only.
pub fn ref_features(v: Violation, m: &syntax::Parts) -> Violation {
	v.feat("has_scheme", m.scheme.is_some())
		.feat("has_authority", m.authority.is_some())
		.feat("has_query", m.query.is_some())
		.feat("has_fragment", m.fragment.is_some())
}

/// One case = one reference text accepted by the reference DFA.
pub fn c02_case(t: &[u8], refs: &FamRefs, out: &mut Vec<Violation>) -> u64 {
	let mut evals = 0u64;
	let m = syntax::split(t);
	let mk = |op: &str| ref_features(Violation::new("C02", "decompose", op, text_input(t)), &m);
	let s = match inp(t) {
		Some(s) => s,
		None => return 0,
	};
	let r = match RiRef::new(s) {
		Ok(r) => r,
		Err(_) => {
			out.push(mk("RiRef::new").obs("rejected").exp("accepted (reference DFA accepts)"));
			return 1;
		}
	};
	let want = fmt_parts(&m);
	let mut check_parts = |op: &str, got: Guard<syntax::Parts>, out: &mut Vec<Violation>| {
		evals += 1;
		match got {
			Guard::Ok(g) => {
				if g != m {
					out.push(mk(op).obs(fmt_parts(&g)).exp(&want));
					return;
				}
				// every component valid for its own type (library's checked constructor and reference)
				let comps: [(Kind, Option<&Vec<u8>>); 5] = [
					(Kind::Scheme, g.scheme.as_ref()),
					(Kind::Authority, g.authority.as_ref()),
					(Kind::Path, Some(&g.path)),
					(Kind::Query, g.query.as_ref()),
					(Kind::Fragment, g.fragment.as_ref()),
				];
				for (k, c) in comps {
					if let Some(c) = c {
						if !valid(k, c) || !refs.valid(k, c) {
							out.push(
								mk(&format!("{op}:component-valid"))
									.feat("component", k.name())
									.obs(format!("{:?} is not a valid {}", lossy(c), k.name()))
									.exp("valid component"),
							);
						}
					}
				}
				if syntax::recompose(&g) != t {
					out.push(mk(&format!("{op}:recompose")).obs(lossy(&syntax::recompose(&g))).exp(lossy(t)));
				}
			}
			Guard::Panic(pm) => out.push(mk(op).feat("panic_at", panic_site(&pm)).obs(format!("panic: {pm}")).exp("no panic")),
		}
	};
	check_parts("riref.accessors", guard(|| parts_of_riref_accessors(r)), out);
	check_parts("riref.parts", guard(|| parts_of_riref_parts(r)), out);
	// owned view
	match own(t.to_vec()).map(RiRefBuf::new) {
		Some(Ok(buf)) => {
			check_parts("rirefbuf.accessors", guard(|| parts_of_riref_accessors(&buf)), out);
			check_parts("rirefbuf.parts", guard(|| parts_of_riref_parts(&buf)), out);
		}
		_ => out.push(mk("RiRefBuf::new").obs("rejected").exp("accepted")),
	}
	if m.scheme.is_some() {
		match Ri::new(s) {
			Ok(ri) => {
				check_parts("ri.accessors", guard(|| parts_of_ri_accessors(ri)), out);
				check_parts("ri.parts", guard(|| parts_of_ri_parts(ri)), out);
				match own(t.to_vec()).map(RiBuf::new) {
					Some(Ok(buf)) => {
						check_parts("ribuf.accessors", guard(|| parts_of_ri_accessors(&buf)), out);
						check_parts("ribuf.parts", guard(|| parts_of_ri_parts(&buf)), out);
					}
					_ => out.push(mk("RiBuf::new").obs("rejected").exp("accepted")),
				}
			}
			Err(_) => out.push(mk("Ri::new").obs("rejected").exp("accepted: a valid reference with a scheme is a URI/IRI")),
		}
	} else {
		evals += 1;
		if Ri::new(s).is_ok() {
			out.push(mk("Ri::new").obs("accepted").exp("rejected: no scheme"));
		}
	}
	evals
}

pub fn c02_replay(input: &Value, refs: &FamRefs) -> Vec<Violation> {
	let mut out = Vec::new();
	if let Some(t) = json_bytes(&input["text"]) {
		c02_case(&t, refs, &mut out);
	}
	out
}

// ---------------------------------------------------------------------------------------------
// C03

fn auth_accessors(a: &Authority) -> syntax::AuthParts {
	syntax::AuthParts {
		userinfo: ob(a.user_info()),
		host: a.host().as_bytes().to_vec(),
		port: ob(a.port()),
	}
}

fn auth_parts(a: &Authority) -> syntax::AuthParts {
	let p = a.parts();
	syntax::AuthParts {
		userinfo: ob(p.user_info),
		host: p.host.as_bytes().to_vec(),
		port: ob(p.port),
	}
}

pub fn fmt_auth(p: &syntax::AuthParts) -> String {
	format!("userinfo={} host={:?} port={}", opt_lossy(&p.userinfo), lossy(&p.host), opt_lossy(&p.port))
}

pub fn auth_features(v: Violation, m: &syntax::AuthParts) -> Violation {
	v.feat(
		"host_kind",
		match syntax::host_kind(&m.host) {
			syntax::HostKind::Empty => "empty",
			syntax::HostKind::IpLiteral => "ip_literal",
			syntax::HostKind::Other => "name",
		},
	)
	.feat("has_userinfo", m.userinfo.is_some())
	.feat("has_port", m.port.is_some())
}

/// One case = an authority text (stand-alone) or a reference text containing one
/// (`embedded`): the authority is then obtained through `RiRef::authority()`.
pub fn c03_case(t: &[u8], embedded: bool, refs: &FamRefs, out: &mut Vec<Violation>) -> u64 {
	let mut evals = 0u64;
	let input = json!({"fam": fam_name(), "text": bytes_json(t), "embedded": embedded});
	let s = match inp(t) {
		Some(s) => s,
		None => return 0,
	};
	let auth_text: Vec<u8> = if embedded {
		match syntax::split(t).authority {
			Some(a) => a,
			None => return 0,
		}
	} else {
		t.to_vec()
	};
	let m = syntax::split_authority(&auth_text);
	let mk = |op: &str| auth_features(Violation::new("C03", "authority", op, input.clone()), &m).feat("embedded", embedded);
	let a: &Authority = if embedded {
		match RiRef::new(s) {
			Ok(r) => match r.authority() {
				Some(a) => a,
				None => {
					out.push(mk("RiRef::authority").obs("<none>").exp(format!("{:?}", lossy(&auth_text))));
					return 1;
				}
			},
			Err(_) => {
				out.push(mk("RiRef::new").obs("rejected").exp("accepted"));
				return 1;
			}
		}
	} else {
		match Authority::new(s) {
			Ok(a) => a,
			Err(_) => {
				out.push(mk("Authority::new").obs("rejected").exp("accepted (reference DFA accepts)"));
				return 1;
			}
		}
	};
	if a.as_bytes() != &auth_text[..] {
		out.push(mk("authority-text").obs(lossy(a.as_bytes())).exp(lossy(&auth_text)));
		return 1;
	}
	let want = fmt_auth(&m);
	if embedded {
		// the same authority reached through the owned buffer's editing handle, without any edit
		evals += 1;
		let g = guard(|| {
			let mut buf = rirefbuf_of(t)?;
			let viewed = buf.authority_mut().map(|h| (h.as_authority().as_bytes().to_vec(), auth_accessors(&h)));
			let mut buf2 = rirefbuf_of(t)?;
			let taken = buf2.authority_mut().map(|h| {
				let a = h.into_authority();
				(a.as_bytes().to_vec(), auth_accessors(a))
			});
			Some((viewed, taken))
		});
		match g {
			Guard::Ok(Some((viewed, taken))) => {
				for (op, got) in [("authority_mut().as_authority", viewed), ("authority_mut().into_authority", taken)] {
					match got {
						Some((text, parts)) if text == auth_text && parts == m => {}
						Some((text, parts)) => out.push(mk(op).obs(format!("{:?} {}", lossy(&text), fmt_auth(&parts))).exp(format!("{:?} {}", lossy(&auth_text), want))),
						None => out.push(mk(op).obs("<no handle>").exp(lossy(&auth_text))),
					}
				}
			}
			Guard::Ok(None) => out.push(mk("RiRefBuf::new").obs("rejected").exp("accepted")),
			Guard::Panic(pm) => out.push(mk("authority_mut()").feat("panic_at", panic_site(&pm)).obs(format!("panic: {pm}")).exp("no panic")),
		}
	}
	for (op, got) in [("accessors", guard(|| auth_accessors(a))), ("parts", guard(|| auth_parts(a)))] {
		evals += 1;
		match got {
			Guard::Ok(g) => {
				// report each differing sub-component under its own op
				if g.userinfo != m.userinfo {
					out.push(mk(&format!("{op}.user_info")).obs(fmt_auth(&g)).exp(&want));
				}
				if g.host != m.host {
					out.push(mk(&format!("{op}.host")).obs(fmt_auth(&g)).exp(&want));
				}
				if g.port != m.port {
					out.push(mk(&format!("{op}.port")).obs(fmt_auth(&g)).exp(&want));
				}
				if g == m {
					let comps: [(Kind, Option<&Vec<u8>>); 3] =
						[(Kind::UserInfo, g.userinfo.as_ref()), (Kind::Host, Some(&g.host)), (Kind::Port, g.port.as_ref())];
					for (k, c) in comps {
						if let Some(c) = c {
							if !valid(k, c) || !refs.valid(k, c) {
								out.push(
									mk(&format!("{op}:component-valid"))
										.feat("component", k.name())
										.obs(format!("{:?} is not a valid {}", lossy(c), k.name()))
										.exp("valid"),
								);
							}
						}
					}
					if syntax::recompose_authority(&g) != auth_text {
						out.push(mk(&format!("{op}:recompose")).obs(lossy(&syntax::recompose_authority(&g))).exp(lossy(&auth_text)));
					}
				}
			}
			Guard::Panic(pm) => out.push(mk(op).feat("panic_at", panic_site(&pm)).obs(format!("panic: {pm}")).exp("no panic")),
		}
	}
	evals
}

pub fn c03_replay(input: &Value, refs: &FamRefs) -> Vec<Violation> {
	let mut out = Vec::new();
	if let Some(t) = json_bytes(&input["text"]) {
		c03_case(&t, input["embedded"].as_bool().unwrap_or(false), refs, &mut out);
	}
	out
}
