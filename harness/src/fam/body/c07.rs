// C07: equality is the documented equivalence, and total.
// C08: Eq / Ord / Hash agree across all views.

use crate::model::equiv;
use std::cmp::Ordering;
use std::hash::{Hash, Hasher};

pub struct Fnv(pub u64);
impl Hasher for Fnv {
	fn finish(&self) -> u64 {
		self.0
	}
	fn write(&mut self, bytes: &[u8]) {
		for b in bytes {
			self.0 ^= *b as u64;
			self.0 = self.0.wrapping_mul(0x100000001b3);
		}
	}
}
pub fn fnv_hash<T: ?Sized + Hash>(t: &T) -> u64 {
	let mut h = Fnv(0xcbf29ce484222325);
	t.hash(&mut h);
	h.finish()
}
/// A hasher that is sensitive to HOW the bytes are fed (one `write` of n bytes differs from n
/// one-byte writes), like word-at-a-time hashers (FxHasher, ahash). `k1 == k2 => hash(k1) ==
/// hash(k2)` and the Borrow contract must hold for every Hasher, so this is a legitimate probe.
pub struct Chunky(pub u64);
impl Hasher for Chunky {
	fn finish(&self) -> u64 {
		self.0
	}
	fn write(&mut self, bytes: &[u8]) {
		self.0 = (self.0 ^ (bytes.len() as u64).wrapping_add(0x9E37_79B9_7F4A_7C15)).wrapping_mul(0x100000001b3);
		for b in bytes {
			self.0 ^= *b as u64;
			self.0 = self.0.wrapping_mul(0x100000001b3);
		}
	}
}
pub fn chunky_hash<T: ?Sized + Hash>(t: &T) -> u64 {
	let mut h = Chunky(0xcbf29ce484222325);
	t.hash(&mut h);
	h.finish()
}
pub fn default_hash<T: ?Sized + Hash>(t: &T) -> u64 {
	let mut h = std::collections::hash_map::DefaultHasher::new();
	t.hash(&mut h);
	h.finish()
}

/// Canonical form per kind (reference model), rendered to a comparable string.
pub fn c07_canon(kind: Kind, t: &[u8]) -> String {
	match kind {
		Kind::Ri | Kind::RiRef => format!("{:?}", equiv::canon_ref(t)),
		Kind::Scheme | Kind::Port => format!("{:?}", t),
		Kind::Authority => format!("{:?}", equiv::canon_authority(t)),
		Kind::Path => format!("{:?}", equiv::canon_path(t)),
		Kind::UserInfo | Kind::Host | Kind::Segment | Kind::Query | Kind::Fragment => format!("{:?}", equiv::pct_octets(t)),
	}
}

/// Are all percent-decoded parts of the value well-formed UTF-8?
pub fn c07_wellformed(kind: Kind, t: &[u8]) -> bool {
	match kind {
		Kind::Ri | Kind::RiRef => equiv::ref_wellformed(t),
		Kind::Scheme | Kind::Port => true,
		Kind::Authority => {
			let c = equiv::canon_authority(t);
			c.userinfo.as_ref().map(|u| std::str::from_utf8(u).is_ok()).unwrap_or(true) && std::str::from_utf8(&c.host).is_ok()
		}
		Kind::Path => equiv::canon_path(t).segs.iter().all(|s| std::str::from_utf8(s).is_ok()),
		_ => equiv::octets_wellformed(t),
	}
}

macro_rules! with_ty {
	($kind:expr, $T:ident, $body:block) => {
		match $kind {
			Kind::Ri => {
				type $T = Ri;
				$body
			}
			Kind::RiRef => {
				type $T = RiRef;
				$body
			}
			Kind::Scheme => {
				type $T = Scheme;
				$body
			}
			Kind::Authority => {
				type $T = Authority;
				$body
			}
			Kind::UserInfo => {
				type $T = UserInfo;
				$body
			}
			Kind::Host => {
				type $T = Host;
				$body
			}
			Kind::Port => {
				type $T = Port;
				$body
			}
			Kind::Path => {
				type $T = Path;
				$body
			}
			Kind::Segment => {
				type $T = Segment;
				$body
			}
			Kind::Query => {
				type $T = Query;
				$body
			}
			Kind::Fragment => {
				type $T = Fragment;
				$body
			}
		}
	};
}

/// Everything the library says about the ordered pair (a, b) of one type.
#[derive(Debug, PartialEq, Eq, Clone)]
pub struct PairObs {
	pub eq: bool,
	pub ne: bool,
	pub cmp: Ordering,
	pub partial: Option<Ordering>,
	pub hash_a: u64,
	pub hash_b: u64,
	pub dhash_a: u64,
	pub dhash_b: u64,
	pub chash_a: u64,
	pub chash_b: u64,
}

fn new_as<'a, T: ?Sized>(f: impl FnOnce() -> Option<&'a T>) -> &'a T {
	f().expect("domain value is valid")
}

pub fn c07_pair_obs(kind: Kind, a: &[u8], b: &[u8]) -> Guard<PairObs> {
	// Scheme and Port take bytes in both families
	if matches!(kind, Kind::Scheme | Kind::Port) {
		return guard(|| {
			macro_rules! go {
				($T:ident) => {{
					let x = $T::new(a).ok().expect("valid");
					let y = $T::new(b).ok().expect("valid");
					PairObs {
						eq: x == y,
						ne: x != y,
						cmp: x.cmp(y),
						partial: x.partial_cmp(y),
						hash_a: fnv_hash(x),
						hash_b: fnv_hash(y),
						dhash_a: default_hash(x),
						dhash_b: default_hash(y),
						chash_a: chunky_hash(x),
						chash_b: chunky_hash(y),
					}
				}};
			}
			if kind == Kind::Scheme {
				go!(Scheme)
			} else {
				go!(Port)
			}
		});
	}
	let (sa, sb) = (inp(a).expect("utf8"), inp(b).expect("utf8"));
	guard(|| {
		with_ty!(kind, T, {
			let x: &T = T::new(sa).ok().expect("valid");
			let y: &T = T::new(sb).ok().expect("valid");
			PairObs {
				eq: x == y,
				ne: x != y,
				cmp: x.cmp(y),
				partial: x.partial_cmp(y),
				hash_a: fnv_hash(x),
				hash_b: fnv_hash(y),
				dhash_a: default_hash(x),
				dhash_b: default_hash(y),
				chash_a: chunky_hash(x),
				chash_b: chunky_hash(y),
			}
		})
	})
}

/// ALIASED operands: `b` is a proper prefix (or suffix) of `a`; the second value is parsed from
/// that part of a's own buffer, so both values start (or end) at the same address. Returns
/// (x == y, y == x, cmp == Equal).
pub fn c07_alias_obs(kind: Kind, a: &[u8], b: &[u8], at_start: bool) -> Option<Guard<(bool, bool, bool)>> {
	if matches!(kind, Kind::Scheme | Kind::Port) {
		return None;
	}
	let sa = inp(a)?;
	Some(guard(|| {
		with_ty!(kind, T, {
			let x: &T = T::new(sa).ok().expect("valid");
			let part = if at_start { &sa[..b.len()] } else { &sa[sa.len() - b.len()..] };
			let y: &T = T::new(part).ok().expect("valid");
			(x == y, y == x, x.cmp(y) == Ordering::Equal)
		})
	}))
}

/// Owned-type observations (all kinds except Path, whose owned type is not comparable).
pub fn c07_pair_obs_owned(kind: Kind, a: &[u8], b: &[u8]) -> Option<Guard<PairObs>> {
	macro_rules! go {
		($TBuf:ident, $mk:expr) => {{
			Some(guard(|| {
				let x: $TBuf = $mk(a);
				let y: $TBuf = $mk(b);
				PairObs {
					eq: x == y,
					ne: x != y,
					cmp: x.cmp(&y),
					partial: x.partial_cmp(&y),
					hash_a: fnv_hash(&x),
					hash_b: fnv_hash(&y),
					dhash_a: default_hash(&x),
					dhash_b: default_hash(&y),
					chash_a: chunky_hash(&x),
					chash_b: chunky_hash(&y),
				}
			}))
		}};
	}
	match kind {
		Kind::Ri => go!(RiBuf, |t: &[u8]| RiBuf::new(own(t.to_vec()).unwrap()).ok().unwrap()),
		Kind::RiRef => go!(RiRefBuf, |t: &[u8]| RiRefBuf::new(own(t.to_vec()).unwrap()).ok().unwrap()),
		Kind::Scheme => go!(SchemeBuf, |t: &[u8]| SchemeBuf::new(t.to_vec()).ok().unwrap()),
		Kind::Authority => go!(AuthorityBuf, |t: &[u8]| AuthorityBuf::new(own(t.to_vec()).unwrap()).ok().unwrap()),
		Kind::UserInfo => go!(UserInfoBuf, |t: &[u8]| UserInfoBuf::new(own(t.to_vec()).unwrap()).ok().unwrap()),
		Kind::Host => go!(HostBuf, |t: &[u8]| HostBuf::new(own(t.to_vec()).unwrap()).ok().unwrap()),
		Kind::Port => go!(PortBuf, |t: &[u8]| PortBuf::new(t.to_vec()).ok().unwrap()),
		Kind::Path => None,
		Kind::Segment => go!(SegmentBuf, |t: &[u8]| SegmentBuf::new(own(t.to_vec()).unwrap()).ok().unwrap()),
		Kind::Query => go!(QueryBuf, |t: &[u8]| QueryBuf::new(own(t.to_vec()).unwrap()).ok().unwrap()),
		Kind::Fragment => go!(FragmentBuf, |t: &[u8]| FragmentBuf::new(own(t.to_vec()).unwrap()).ok().unwrap()),
	}
}

/// The provided cross-type comparisons between the reference / non-reference, borrowed / owned
/// forms. `a`, `b` are reference texts; impls needing a scheme are used when it is there.
/// Returns (name, eq result, partial_cmp result if provided).
pub fn c07_cross_obs(a: &[u8], b: &[u8]) -> Guard<Vec<(&'static str, bool, Option<Option<Ordering>>)>> {
	let a_has_scheme = syntax::split(a).scheme.is_some();
	let b_has_scheme = syntax::split(b).scheme.is_some();
	guard(|| {
		let mut v: Vec<(&'static str, bool, Option<Option<Ordering>>)> = Vec::new();
		let ra = RiRef::new(inp(a).unwrap()).ok().unwrap();
		let rb = RiRef::new(inp(b).unwrap()).ok().unwrap();
		let ba = rirefbuf_of(a).unwrap();
		let bb = rirefbuf_of(b).unwrap();
		v.push(("RiRef==&RiRef", *ra == rb, Some(ra.partial_cmp(&rb))));
		v.push(("RiRef==RiRefBuf", *ra == bb, Some(ra.partial_cmp(&bb))));
		v.push(("RiRefBuf==RiRef", ba == *rb, Some(ba.partial_cmp(rb))));
		v.push(("RiRefBuf==&RiRef", ba == rb, Some(ba.partial_cmp(&rb))));
		if b_has_scheme {
			let ib = Ri::new(inp(b).unwrap()).ok().unwrap();
			let ibb = ribuf_of(b).unwrap();
			v.push(("RiRef==Ri", *ra == *ib, Some(ra.partial_cmp(ib))));
			v.push(("RiRef==&Ri", *ra == ib, Some(ra.partial_cmp(&ib))));
			v.push(("RiRef==RiBuf", *ra == ibb, Some(ra.partial_cmp(&ibb))));
			v.push(("RiRefBuf==Ri", ba == *ib, Some(ba.partial_cmp(ib))));
			v.push(("RiRefBuf==&Ri", ba == ib, Some(ba.partial_cmp(&ib))));
			v.push(("RiRefBuf==RiBuf", ba == ibb, Some(ba.partial_cmp(&ibb))));
		}
		if a_has_scheme {
			let ia = Ri::new(inp(a).unwrap()).ok().unwrap();
			let iba = ribuf_of(a).unwrap();
			v.push(("Ri==RiRef", *ia == *rb, Some(ia.partial_cmp(rb))));
			v.push(("Ri==&RiRef", *ia == rb, Some(ia.partial_cmp(&rb))));
			v.push(("Ri==RiRefBuf", *ia == bb, Some(ia.partial_cmp(&bb))));
			v.push(("RiBuf==RiRef", iba == *rb, Some(iba.partial_cmp(rb))));
			v.push(("RiBuf==&RiRef", iba == rb, Some(iba.partial_cmp(&rb))));
			v.push(("RiBuf==RiRefBuf", iba == bb, Some(iba.partial_cmp(&bb))));
			if b_has_scheme {
				let ib = Ri::new(inp(b).unwrap()).ok().unwrap();
				let ibb = ribuf_of(b).unwrap();
				v.push(("Ri==&Ri", *ia == ib, Some(ia.partial_cmp(&ib))));
				v.push(("Ri==RiBuf", *ia == ibb, Some(ia.partial_cmp(&ibb))));
				v.push(("RiBuf==Ri", iba == *ib, Some(iba.partial_cmp(ib))));
				v.push(("RiBuf==&Ri", iba == ib, Some(iba.partial_cmp(&ib))));
			}
		}
		v
	})
}

pub fn c07_input(kind: Kind, a: &[u8], b: &[u8]) -> Value {
	json!({"fam": fam_name(), "kind": kind.name(), "a": bytes_json(a), "b": bytes_json(b)})
}

fn pair_features(v: Violation, kind: Kind, a: &[u8], b: &[u8]) -> Violation {
	v.feat("type", format!("{}::{}", fam_name(), kind.name()))
		.feat("octets_wellformed", c07_wellformed(kind, a) && c07_wellformed(kind, b))
}

/// C07 judgement of one ordered pair.
pub fn c07_pair(kind: Kind, a: &[u8], b: &[u8], out: &mut Vec<Violation>) -> u64 {
	let want = c07_canon(kind, a) == c07_canon(kind, b);
	let mk = |check: &str, what: &str| pair_features(Violation::new("C07", check, what, c07_input(kind, a, b)), kind, a, b).feat("model_equal", want);
	let mut n = 1;
	match c07_pair_obs(kind, a, b) {
		Guard::Ok(o) => {
			if o.eq != want {
				out.push(mk("eq", if want { "missed-merge" } else { "false-merge" }).obs(format!("a == b is {}", o.eq)).exp(want));
			}
			if o.ne == o.eq {
				out.push(mk("eq", "ne-inconsistent").obs(format!("== {} and != {}", o.eq, o.ne)).exp("negations of each other"));
			}
		}
		Guard::Panic(pm) => out.push(mk("eq", "panic").feat("panic_at", panic_site(&pm)).obs(format!("panic: {pm}")).exp("comparison terminates without panicking")),
	}
	// operands that share a buffer (same start or same end address, different lengths)
	if a.len() != b.len() {
		for at_start in [true, false] {
			if (at_start && a.starts_with(b)) || (!at_start && a.ends_with(b)) {
				if let Some(g) = c07_alias_obs(kind, a, b, at_start) {
					n += 1;
					match g {
						Guard::Ok((xy, yx, ce)) => {
							if xy != want || yx != want || ce != want {
								out.push(
									mk("eq-aliased", if at_start { "same-start-address" } else { "same-end-address" })
										.obs(format!("a == b {xy}, b == a {yx}, cmp == Equal {ce}"))
										.exp(want),
								);
							}
						}
						Guard::Panic(pm) => out.push(mk("eq-aliased", "panic").feat("panic_at", panic_site(&pm)).obs(format!("panic: {pm}")).exp("comparison terminates without panicking")),
					}
				}
			}
		}
	}
	if let Some(g) = c07_pair_obs_owned(kind, a, b) {
		n += 1;
		match g {
			Guard::Ok(o) => {
				if o.eq != want {
					out.push(mk("eq-owned", if want { "missed-merge" } else { "false-merge" }).obs(format!("a == b is {}", o.eq)).exp(want));
				}
			}
			Guard::Panic(pm) => out.push(mk("eq-owned", "panic").feat("panic_at", panic_site(&pm)).obs(format!("panic: {pm}")).exp("comparison terminates without panicking")),
		}
	}
	if kind == Kind::RiRef {
		n += 1;
		match c07_cross_obs(a, b) {
			Guard::Ok(list) => {
				for (name, e, _) in list {
					if e != want {
						out.push(mk("eq-cross", name).obs(format!("{name} is {e}")).exp(want));
					}
				}
			}
			Guard::Panic(pm) => out.push(mk("eq-cross", "panic").feat("panic_at", panic_site(&pm)).obs(format!("panic: {pm}")).exp("comparison terminates without panicking")),
		}
	}
	n
}

/// C08 judgement of one ordered pair (consistency of ==, cmp, hash; borrowed vs owned).
pub fn c08_pair(kind: Kind, a: &[u8], b: &[u8], out: &mut Vec<Violation>) -> u64 {
	let mk = |check: &str, what: &str| pair_features(Violation::new("C08", check, what, c07_input(kind, a, b)), kind, a, b);
	let (ab, ba) = (c07_pair_obs(kind, a, b), c07_pair_obs(kind, b, a));
	let (ab, ba) = match (ab, ba) {
		(Guard::Ok(x), Guard::Ok(y)) => (x, y),
		(Guard::Panic(pm), _) | (_, Guard::Panic(pm)) => {
			out.push(mk("consistency", "panic").feat("panic_at", panic_site(&pm)).obs(format!("panic: {pm}")).exp("no panic"));
			return 1;
		}
	};
	if ab.eq && (ab.hash_a != ab.hash_b || ab.dhash_a != ab.dhash_b || ab.chash_a != ab.chash_b) {
		out.push(mk("consistency", "eq-but-hash-differs").obs(format!("a == b, hashes {:x} / {:x}", ab.hash_a, ab.hash_b)).exp("equal values hash identically"));
	}
	if (ab.cmp == Ordering::Equal) != ab.eq {
		out.push(mk("consistency", "cmp-equal-vs-eq").obs(format!("cmp {:?}, == {}", ab.cmp, ab.eq)).exp("cmp == Equal exactly when =="));
	}
	if ab.partial != Some(ab.cmp) {
		out.push(mk("consistency", "partial_cmp-vs-cmp").obs(format!("{:?} vs {:?}", ab.partial, ab.cmp)).exp("partial_cmp == Some(cmp)"));
	}
	if ab.cmp != ba.cmp.reverse() {
		out.push(mk("consistency", "antisymmetry").obs(format!("cmp(a,b) {:?}, cmp(b,a) {:?}", ab.cmp, ba.cmp)).exp("opposite"));
	}
	if ab.eq != ba.eq {
		out.push(mk("consistency", "eq-symmetry").obs(format!("a==b {}, b==a {}", ab.eq, ba.eq)).exp("same"));
	}
	if let Some(Guard::Ok(o)) = c07_pair_obs_owned(kind, a, b) {
		if o != ab {
			out.push(mk("consistency", "owned-vs-borrowed").obs(format!("{:?}", o)).exp(format!("{:?}", ab)));
		}
	}
	if kind == Kind::RiRef {
		if let Guard::Ok(list) = c07_cross_obs(a, b) {
			for (name, e, pc) in list {
				if e != ab.eq || pc.map(|p| p != ab.partial).unwrap_or(false) {
					out.push(mk("cross-type", name).obs(format!("{name}: == {e}, partial_cmp {:?}", pc)).exp(format!("== {}, partial_cmp {:?}", ab.eq, ab.partial)));
				}
			}
		}
	}
	2
}

/// Transitivity of `cmp` on a triple (a <= b and b <= c implies a <= c).
pub fn c08_triple(kind: Kind, a: &[u8], b: &[u8], c: &[u8], out: &mut Vec<Violation>) {
	let le = |x: &[u8], y: &[u8]| -> Option<bool> { c07_pair_obs(kind, x, y).ok().map(|o| o.cmp != Ordering::Greater) };
	if let (Some(true), Some(true), Some(false)) = (le(a, b), le(b, c), le(a, c)) {
		out.push(
			Violation::new("C08", "consistency", "cmp-transitivity", json!({"fam": fam_name(), "kind": kind.name(), "a": bytes_json(a), "b": bytes_json(b), "c": bytes_json(c)}))
				.feat("type", format!("{}::{}", fam_name(), kind.name()))
				.obs("a <= b, b <= c but a > c")
				.exp("transitive"),
		);
	}
}

/// Borrow contract and collection lookups for one URI/IRI text with a scheme.
pub fn c08_views(t: &[u8], out: &mut Vec<Violation>) -> u64 {
	use std::borrow::Borrow;
	use std::collections::{BTreeSet, HashSet};
	let input = json!({"fam": fam_name(), "kind": "ri", "a": bytes_json(t), "b": bytes_json(t)});
	let mk = |what: &str| {
		Violation::new("C08", "borrow-views", what, input.clone())
			.feat("type", format!("{}::ri", fam_name()))
			.feat("octets_wellformed", c07_wellformed(Kind::Ri, t))
	};
	let r = guard(|| {
		let mut probs: Vec<(String, String)> = Vec::new();
		let owned = ribuf_of(t).unwrap();
		let ri: &Ri = Ri::new(inp(t).unwrap()).ok().unwrap();
		let as_ref: &RiRef = ri.borrow();
		let owned_as_ri: &Ri = owned.borrow();
		let owned_as_ref: &RiRef = owned.borrow();
		let h = fnv_hash(&owned);
		for (name, hv) in [("Ri", fnv_hash(ri)), ("RiBuf->Ri", fnv_hash(owned_as_ri)), ("Ri->RiRef", fnv_hash(as_ref)), ("RiBuf->RiRef", fnv_hash(owned_as_ref))] {
			if hv != h {
				probs.push((format!("hash:{name}"), format!("hash(RiBuf) {h:x} != hash({name}) {hv:x}")));
			}
		}
		let hc = chunky_hash(&owned);
		for (name, hv) in [("Ri", chunky_hash(ri)), ("RiBuf->Ri", chunky_hash(owned_as_ri)), ("Ri->RiRef", chunky_hash(as_ref)), ("RiBuf->RiRef", chunky_hash(owned_as_ref))] {
			if hv != hc {
				probs.push((format!("chunk-sensitive-hash:{name}"), format!("hash(RiBuf) {hc:x} != hash({name}) {hv:x}")));
			}
		}
		let mut hs: HashSet<RiBuf> = HashSet::new();
		hs.insert(owned.clone());
		if !hs.contains(ri) {
			probs.push(("HashSet<RiBuf>.contains(&Ri)".into(), "not found".into()));
		}
		if !hs.contains(as_ref) {
			probs.push(("HashSet<RiBuf>.contains(&RiRef)".into(), "not found".into()));
		}
		let mut bs: BTreeSet<RiBuf> = BTreeSet::new();
		bs.insert(owned.clone());
		if !bs.contains(ri) {
			probs.push(("BTreeSet<RiBuf>.contains(&Ri)".into(), "not found".into()));
		}
		if !bs.contains(as_ref) {
			probs.push(("BTreeSet<RiBuf>.contains(&RiRef)".into(), "not found".into()));
		}
		let mut hr: HashSet<RiRefBuf> = HashSet::new();
		hr.insert(rirefbuf_of(t).unwrap());
		if !hr.contains(as_ref) {
			probs.push(("HashSet<RiRefBuf>.contains(&RiRef)".into(), "not found".into()));
		}
		extra_views(t, &mut probs);
		probs
	});
	match r {
		Guard::Ok(probs) => {
			for (what, obs) in probs {
				out.push(mk(&what).obs(obs).exp("views of one value hash and compare identically; lookups find what was inserted"));
			}
		}
		Guard::Panic(pm) => out.push(mk("panic").feat("panic_at", panic_site(&pm)).obs(format!("panic: {pm}")).exp("no panic")),
	}
	1
}

/// Whole-domain collections: insert every URI/IRI of the domain into a BTreeSet / HashSet of
/// owned values, then look every value up through every Borrow view. With many keys an
/// ordering or hashing that differs between views sends the search down the wrong branch.
pub fn c08_collections(dom: &[Vec<u8>], total: &mut Report) -> u64 {
	use std::collections::{BTreeSet, HashSet};
	let mut n = 0u64;
	let r = guard(|| {
		let mut probs: Vec<(Vec<u8>, String)> = Vec::new();
		let mut bt: BTreeSet<RiBuf> = BTreeSet::new();
		let mut hs: HashSet<RiBuf> = HashSet::new();
		let mut btr: BTreeSet<RiRefBuf> = BTreeSet::new();
		for t in dom {
			if !c07_wellformed(Kind::Ri, t) {
				continue;
			}
			bt.insert(ribuf_of(t).unwrap());
			hs.insert(ribuf_of(t).unwrap());
			btr.insert(rirefbuf_of(t).unwrap());
		}
		for t in dom {
			if !c07_wellformed(Kind::Ri, t) {
				continue;
			}
			let ri = Ri::new(inp(t).unwrap()).ok().unwrap();
			let rr = RiRef::new(inp(t).unwrap()).ok().unwrap();
			if !bt.contains(ri) {
				probs.push((t.clone(), "BTreeSet<RiBuf>(all).contains(&Ri)".into()));
			}
			if !bt.contains(rr) {
				probs.push((t.clone(), "BTreeSet<RiBuf>(all).contains(&RiRef)".into()));
			}
			if !hs.contains(ri) {
				probs.push((t.clone(), "HashSet<RiBuf>(all).contains(&Ri)".into()));
			}
			if !hs.contains(rr) {
				probs.push((t.clone(), "HashSet<RiBuf>(all).contains(&RiRef)".into()));
			}
			if !btr.contains(rr) {
				probs.push((t.clone(), "BTreeSet<RiRefBuf>(all).contains(&RiRef)".into()));
			}
			for (name, found) in extra_collection_lookups(t, &bt, &hs) {
				if !found {
					probs.push((t.clone(), name.to_string()));
				}
			}
		}
		probs
	});
	match r {
		Guard::Ok(probs) => {
			n += dom.len() as u64;
			for (t, what) in probs {
				total.violate(
					Violation::new("C08", "collections", &what, json!({"fam": fam_name(), "kind": "ri", "a": bytes_json(&t), "b": bytes_json(&t), "note": "looked up in a set holding the whole C08 domain"}))
						.feat("type", format!("{}::ri", fam_name()))
						.obs("not found")
						.exp("an inserted value is found through every Borrow view"),
				);
			}
		}
		Guard::Panic(pm) => total.violate(
			Violation::new("C08", "collections", "panic", json!({"fam": fam_name(), "kind": "ri", "a": "", "b": ""})).feat("panic_at", panic_site(&pm)).obs(format!("panic: {pm}")).exp("no panic"),
		),
	}
	n
}

pub fn c07_replay(input: &Value, prop: &str) -> Vec<Violation> {
	let mut out = Vec::new();
	let kind = match input["kind"].as_str().and_then(Kind::parse) {
		Some(k) => k,
		None => return out,
	};
	let (a, b) = match (json_bytes(&input["a"]), json_bytes(&input["b"])) {
		(Some(a), Some(b)) => (a, b),
		_ => return out,
	};
	if prop == "C07" {
		c07_pair(kind, &a, &b, &mut out);
	} else {
		if let Some(c) = json_bytes(&input["c"]) {
			c08_triple(kind, &a, &b, &c, &mut out);
		} else {
			c08_pair(kind, &a, &b, &mut out);
			if kind == Kind::Ri && a == b {
				c08_views(&a, &mut out);
			}
		}
	}
	out
}
