// C15: relativisation round-trips through resolution.
// C16: suffix and base extraction.

pub fn c15_input(a: &[u8], b: &[u8]) -> Value {
	json!({"fam": fam_name(), "a": bytes_json(a), "b": bytes_json(b)})
}

/// Structural relation of the two URIs/IRIs, from the reference model only.
pub fn c15_features(v: Violation, a: &[u8], b: &[u8]) -> Violation {
	let (pa, pb) = (syntax::split(a), syntax::split(b));
	let (ca, cb) = (equiv::canon_ref(a), equiv::canon_ref(b));
	let same_scheme = pa.scheme == pb.scheme;
	let auth_rel = match (&ca.authority, &cb.authority) {
		(None, None) => "none-none",
		(Some(x), Some(y)) if x == y => "same",
		(Some(_), Some(_)) => "different",
		(Some(_), None) => "a-only",
		(None, Some(_)) => "b-only",
	};
	// position of a's path relative to the directory of b's path (normalised segments)
	let bdir: Vec<Vec<u8>> = if cb.path.segs.is_empty() { vec![] } else { cb.path.segs[..cb.path.segs.len() - 1].to_vec() };
	let common = ca.path.segs.iter().zip(bdir.iter()).take_while(|(x, y)| x == y).count();
	let rel = if ca.path.abs != cb.path.abs {
		"absoluteness-differs"
	} else if ca.path == cb.path {
		"same-path"
	} else if common == bdir.len() {
		"inside-base-directory"
	} else {
		"outside-base-directory"
	};
	v.feat("same_scheme", same_scheme)
		.feat("authority", auth_rel)
		.feat("path_relation", rel)
		.feat("a_path_empty", pa.path.is_empty())
		.feat("b_path_empty", pb.path.is_empty())
		.feat("a_has_query_or_fragment", pa.query.is_some() || pa.fragment.is_some())
		.feat("b_has_query", pb.query.is_some())
		.feat("paths_absolute", format!("{}-{}", ca.path.abs, cb.path.abs))
}

pub fn c15_case(a: &[u8], b: &[u8], refs: &FamRefs, out: &mut Vec<Violation>) -> u64 {
	let mk = |what: &str| c15_features(Violation::new("C15", "round-trip", what, c15_input(a, b)), a, b);
	let r = guard(|| {
		let ia = Ri::new(inp(a).expect("utf8")).ok().expect("valid a");
		let ib = Ri::new(inp(b).expect("utf8")).ok().expect("valid b");
		let rel = ia.relative_to(ib);
		let rel_text = rel.as_bytes().to_vec();
		// also through the reference-typed entry point
		let as_ref: &RiRef = ia.as_ref();
		let rel2 = as_ref.relative_to(ib).as_bytes().to_vec();
		(rel_text, rel2, ia.as_bytes().to_vec(), ib.as_bytes().to_vec())
	});
	match r {
		Guard::Ok((rel, rel2, a_after, b_after)) => {
			if rel != rel2 {
				out.push(mk("entry-points-differ").obs(format!("Ri::relative_to {:?}, RiRef::relative_to {:?}", lossy(&rel), lossy(&rel2))).exp("identical"));
			}
			if a_after != a || b_after != b {
				out.push(mk("inputs-changed").obs("a or b changed").exp("unchanged"));
			}
			if !valid(Kind::RiRef, &rel) || !refs.valid(Kind::RiRef, &rel) {
				out.push(mk("valid").obs(format!("{:?}", lossy(&rel))).exp("a valid reference of the same family"));
				return 1;
			}
			match guard(|| {
				let ib = Ri::new(inp(b).unwrap()).ok().unwrap();
				let ia = Ri::new(inp(a).unwrap()).ok().unwrap();
				let back = RiRef::new(inp(&rel).unwrap()).ok().unwrap().resolved(ib);
				(back.as_bytes().to_vec(), *back == *ia)
			}) {
				Guard::Ok((back, eq)) => {
					// "root + one empty segment" and "no segment" have the same text after RFC
					// dot-segment removal (`/../` -> `/`): the round trip is judged up to that
					// identification (DESIGN 5.3), the library's == only where it cannot matter.
					let lenient = |mut c: equiv::CanonRef| {
						if c.authority.is_none() {
							// without authority resolution renders a leading empty segment
							// unambiguously by collapsing it (C06, pinned `../..//` -> `http:/`)
							let k = c.path.segs.iter().take_while(|x| x.is_empty()).count();
							c.path.segs.drain(..k);
						}
						if c.path.segs.len() == 1 && c.path.segs[0].is_empty() {
							c.path.segs.clear();
						}
						c
					};
					// What resolution can produce at best is a's own RFC normal form N(a) (a resolved
					// as a reference carrying its scheme): a URI such as `t:..`, whose normal form
					// `t:../` differs from it, is not the image of any reference.
					let na = resolve::resolve(&syntax::split(b), &syntax::split(a)).parts;
					let strict_eq = equiv::canon_ref(&back) == equiv::canon_ref(a);
					let lb = lenient(equiv::canon_ref(&back));
					let model_eq = lb == lenient(equiv::canon_ref(a)) || lb == lenient(equiv::canon_parts(na));
					if !model_eq || (strict_eq && !eq) {
						out.push(
							mk("round-trip")
								.obs(format!("relative_to = {:?}, resolved against b = {:?}", lossy(&rel), lossy(&back)))
								.exp(format!("a URI/IRI equal to {:?}", lossy(a))),
						);
					}
				}
				Guard::Panic(pm) => out.push(mk("resolve-panic").feat("panic_at", panic_site(&pm)).obs(format!("panic: {pm}")).exp("no panic")),
			}
		}
		Guard::Panic(pm) => out.push(mk("panic").feat("panic_at", panic_site(&pm)).obs(format!("panic: {pm}")).exp("no panic")),
	}
	1
}

pub fn c15_replay(input: &Value, refs: &FamRefs) -> Vec<Violation> {
	let mut out = Vec::new();
	if let (Some(a), Some(b)) = (json_bytes(&input["a"]), json_bytes(&input["b"])) {
		c15_case(&a, &b, refs, &mut out);
	}
	out
}

// ---------------------------------------------------------------------------------------------
// C16

fn seglist_dbg(v: &[Vec<u8>]) -> String {
	format!("{:?}", v.iter().map(|x| lossy(x)).collect::<Vec<_>>())
}

/// Path::suffix on one ordered pair (value, prefix).
pub fn c16_path_case(p: &[u8], prefix: &[u8], out: &mut Vec<Violation>) -> u64 {
	let input = json!({"fam": fam_name(), "value": bytes_json(p), "prefix": bytes_json(prefix)});
	let (cp, cq) = (equiv::canon_path(p), equiv::canon_path(prefix));
	let expect_some = cp.abs == cq.abs && cp.segs.len() >= cq.segs.len() && cp.segs[..cq.segs.len()] == cq.segs[..];
	let wf = c07_wellformed(Kind::Path, p) && c07_wellformed(Kind::Path, prefix);
	let mk = |what: &str| Violation::new("C16", "path-suffix", what, input.clone()).feat("expect_some", expect_some).feat("octets_wellformed", wf);
	let r = guard(|| {
		let vp = Path::new(inp(p).unwrap()).ok().unwrap();
		let vq = Path::new(inp(prefix).unwrap()).ok().unwrap();
		vp.suffix(vq).map(|s| {
			// reconstruction law: pushing the suffix segments onto the prefix gives a path == original
			let mut rebuilt = pathbuf_of(prefix).unwrap();
			for seg in s.segments() {
				rebuilt.push(seg);
			}
			let rb: &Path = &rebuilt;
			(s.as_bytes().to_vec(), rebuilt.as_bytes().to_vec(), *rb == *vp)
		})
	});
	match r {
		Guard::Ok(None) => {
			if expect_some {
				out.push(mk("missing").obs("None").exp("Some: the prefix's normalised segments lead the value's"));
			}
		}
		Guard::Ok(Some((s, rebuilt, eq))) => {
			if !expect_some {
				out.push(mk("spurious").obs(format!("Some({:?})", lossy(&s))).exp("None"));
			} else {
				// remaining normalised segments (raw text, not decoded)
				let lp = pathlist::split(p);
				let norm = pathlist::normalize_segments(lp.abs, &lp.segs);
				let rest = &norm[cq.segs.len()..];
				let got = pathlist::split(&s);
				if !valid(Kind::Path, &s) {
					out.push(mk("valid").obs(format!("{:?}", lossy(&s))).exp("a valid path"));
				} else if !(pathlist::accepts(&s, got.abs, rest)) {
					out.push(mk("remaining-segments").obs(format!("{:?}", lossy(&s))).exp(format!("a rendering of {}", seglist_dbg(rest))));
				} else if !eq {
					out.push(mk("reconstruction").obs(format!("prefix + suffix = {:?}", lossy(&rebuilt))).exp(format!("a path equal to {:?}", lossy(p))));
				}
			}
		}
		Guard::Panic(pm) => out.push(mk("panic").feat("panic_at", panic_site(&pm)).obs(format!("panic: {pm}")).exp("no panic")),
	}
	1
}

/// Ri/RiRef::suffix on one ordered pair of references.
pub fn c16_ref_case(a: &[u8], prefix: &[u8], out: &mut Vec<Violation>) -> u64 {
	let input = json!({"fam": fam_name(), "value": bytes_json(a), "prefix": bytes_json(prefix)});
	let (ca, cb) = (equiv::canon_ref(a), equiv::canon_ref(prefix));
	let path_ok = ca.path.abs == cb.path.abs && ca.path.segs.len() >= cb.path.segs.len() && ca.path.segs[..cb.path.segs.len()] == cb.path.segs[..];
	let expect_some = ca.scheme == cb.scheme && ca.authority == cb.authority && path_ok;
	let wf = equiv::ref_wellformed(a) && equiv::ref_wellformed(prefix);
	let mk = |what: &str| Violation::new("C16", "ref-suffix", what, input.clone()).feat("expect_some", expect_some).feat("octets_wellformed", wf);
	let pa = syntax::split(a);
	let both_have_scheme = pa.scheme.is_some() && syntax::split(prefix).scheme.is_some();
	let r = guard(|| {
		let va = RiRef::new(inp(a).unwrap()).ok().unwrap();
		let vb = RiRef::new(inp(prefix).unwrap()).ok().unwrap();
		let conv = |x: Option<(PathBuf, Option<&Query>, Option<&Fragment>)>| x.map(|(p, q, f)| (p.as_bytes().to_vec(), ob(q), ob(f)));
		let r1 = conv(va.suffix(vb));
		let r2 = if both_have_scheme {
			let ia = Ri::new(inp(a).unwrap()).ok().unwrap();
			let ib = Ri::new(inp(prefix).unwrap()).ok().unwrap();
			Some(conv(ia.suffix(ib)))
		} else {
			None
		};
		(r1, r2)
	});
	match r {
		Guard::Ok((r1, r2)) => {
			if let Some(r2) = r2 {
				if r2 != r1 {
					out.push(mk("entry-points-differ").obs(format!("{:?} vs {:?}", r1.is_some(), r2.is_some())).exp("RiRef::suffix == Ri::suffix"));
				}
			}
			match r1 {
				None => {
					if expect_some {
						out.push(mk("missing").obs("None").exp("Some"));
					}
				}
				Some((p, q, f)) => {
					if !expect_some {
						out.push(mk("spurious").obs(format!("Some({:?})", lossy(&p))).exp("None"));
					} else {
						if q != pa.query || f != pa.fragment {
							out.push(mk("query-fragment").obs(format!("query {} fragment {}", opt_lossy(&q), opt_lossy(&f))).exp("the value's own query and fragment"));
						}
						let lp = pathlist::split(&pa.path);
						let norm = pathlist::normalize_segments(lp.abs, &lp.segs);
						let rest = &norm[cb.path.segs.len()..];
						let got = pathlist::split(&p);
						if !pathlist::accepts(&p, got.abs, rest) {
							out.push(mk("remaining-segments").obs(format!("{:?}", lossy(&p))).exp(format!("a rendering of {}", seglist_dbg(rest))));
						}
					}
				}
			}
		}
		Guard::Panic(pm) => out.push(mk("panic").feat("panic_at", panic_site(&pm)).obs(format!("panic: {pm}")).exp("no panic")),
	}
	1
}

/// base() on one reference text.
pub fn c16_base_case(t: &[u8], out: &mut Vec<Violation>) -> u64 {
	let input = json!({"fam": fam_name(), "text": bytes_json(t)});
	let p = syntax::split(t);
	let r = syntax::split_ranges(t);
	let want_end = match p.path.iter().rposition(|c| *c == b'/') {
		Some(i) => r.path.0 + i + 1,
		None => r.path.0,
	};
	let want = t[..want_end].to_vec();
	let mk = |what: &str| ref_features(Violation::new("C16", "base", what, input.clone()), &p);
	let has_scheme = p.scheme.is_some();
	let res = guard(|| {
		let v = RiRef::new(inp(t).unwrap()).ok().unwrap();
		let b1 = v.base().as_bytes().to_vec();
		let b2 = if has_scheme { Some(Ri::new(inp(t).unwrap()).ok().unwrap().base().as_bytes().to_vec()) } else { None };
		(b1, b2)
	});
	match res {
		Guard::Ok((b1, b2)) => {
			if b1 != want {
				out.push(mk("RiRef::base").obs(format!("{:?}", lossy(&b1))).exp(format!("{:?}", lossy(&want))));
			} else if !valid(Kind::RiRef, &b1) {
				out.push(mk("RiRef::base:valid").obs(format!("{:?}", lossy(&b1))).exp("a valid reference"));
			}
			if let Some(b2) = b2 {
				if b2 != want {
					out.push(mk("Ri::base").obs(format!("{:?}", lossy(&b2))).exp(format!("{:?}", lossy(&want))));
				} else if !valid(Kind::Ri, &b2) {
					out.push(mk("Ri::base:valid").obs(format!("{:?}", lossy(&b2))).exp("a valid URI/IRI"));
				}
			}
			let bp = syntax::split(&b1);
			if bp.query.is_some() || bp.fragment.is_some() {
				out.push(mk("base:no-query-fragment").obs(fmt_parts(&bp)).exp("no query, no fragment"));
			}
		}
		Guard::Panic(pm) => out.push(mk("panic").feat("panic_at", panic_site(&pm)).obs(format!("panic: {pm}")).exp("no panic")),
	}
	1
}

pub fn c16_replay(check: &str, input: &Value) -> Vec<Violation> {
	let mut out = Vec::new();
	match check {
		"base" => {
			if let Some(t) = json_bytes(&input["text"]) {
				c16_base_case(&t, &mut out);
			}
		}
		"ref-suffix" => {
			if let (Some(a), Some(b)) = (json_bytes(&input["value"]), json_bytes(&input["prefix"])) {
				c16_ref_case(&a, &b, &mut out);
			}
		}
		_ => {
			if let (Some(a), Some(b)) = (json_bytes(&input["value"]), json_bytes(&input["prefix"])) {
				c16_path_case(&a, &b, &mut out);
			}
		}
	}
	out
}
