// C01: parsing accepts exactly the RFC language; text kept; errors carry the input; routes agree.

/// Fast path: verdict of the generated `validate` state machine through the borrowed checked
/// constructor, plus the identity observations (a)/(b). Returns (accepted, identity_ok).
#[inline]
pub fn c01_new(kind: Kind, b: &[u8]) -> (bool, bool) {
	macro_rules! go {
		($T:ident, $s:expr) => {{
			let s = $s;
			match $T::new(s) {
				Ok(v) => {
					let vb = v.as_bytes();
					(true, vb.as_ptr() == b.as_ptr() && vb.len() == b.len())
				}
				Err(e) => {
					let back: &[u8] = AsRef::<[u8]>::as_ref(e.0);
					(false, back.as_ptr() == b.as_ptr() && back.len() == b.len())
				}
			}
		}};
	}
	let s = match inp(b) {
		Some(s) => s,
		None => return (false, true),
	};
	match kind {
		Kind::Ri => go!(Ri, s),
		Kind::RiRef => go!(RiRef, s),
		Kind::Scheme => go!(Scheme, b),
		Kind::Authority => go!(Authority, s),
		Kind::UserInfo => go!(UserInfo, s),
		Kind::Host => go!(Host, s),
		Kind::Port => go!(Port, b),
		Kind::Path => go!(Path, s),
		Kind::Segment => go!(Segment, s),
		Kind::Query => go!(Query, s),
		Kind::Fragment => go!(Fragment, s),
	}
}

/// `validate` on the raw token iterator (bytes for byte types, chars for str types).
pub fn c01_validate(kind: Kind, b: &[u8]) -> bool {
	macro_rules! v {
		($T:ident) => {
			match inp(b) {
				Some(s) => $T::validate(tokens(s)),
				None => false,
			}
		};
	}
	match kind {
		Kind::Ri => v!(Ri),
		Kind::RiRef => v!(RiRef),
		Kind::Scheme => Scheme::validate(b.iter().copied()),
		Kind::Authority => v!(Authority),
		Kind::UserInfo => v!(UserInfo),
		Kind::Host => v!(Host),
		Kind::Port => Port::validate(b.iter().copied()),
		Kind::Path => v!(Path),
		Kind::Segment => v!(Segment),
		Kind::Query => v!(Query),
		Kind::Fragment => v!(Fragment),
	}
}

/// Minimal serde deserializer that feeds one of the six string/bytes visitor entry points.
pub enum Feed<'de> {
	BorrowedStr(&'de str),
	Str(String),
	String(String),
	BorrowedBytes(&'de [u8]),
	Bytes(Vec<u8>),
	ByteBuf(Vec<u8>),
}

impl<'de> serde::Deserializer<'de> for Feed<'de> {
	type Error = serde::de::value::Error;
	fn deserialize_any<V: serde::de::Visitor<'de>>(self, v: V) -> Result<V::Value, Self::Error> {
		match self {
			Feed::BorrowedStr(s) => v.visit_borrowed_str(s),
			Feed::Str(s) => v.visit_str(&s),
			Feed::String(s) => v.visit_string(s),
			Feed::BorrowedBytes(b) => v.visit_borrowed_bytes(b),
			Feed::Bytes(b) => v.visit_bytes(&b),
			Feed::ByteBuf(b) => v.visit_byte_buf(b),
		}
	}
	serde::forward_to_deserialize_any! {
		bool i8 i16 i32 i64 i128 u8 u16 u32 u64 u128 f32 f64 char str string bytes byte_buf option unit
		unit_struct newtype_struct seq tuple tuple_struct map struct enum identifier ignored_any
	}
}

/// Every construction route of one type on one input. `expect` is the reference verdict.
/// Pushes (route, problem) pairs; returns the number of route executions.
pub fn c01_routes(kind: Kind, b: &[u8], expect: bool, probs: &mut Vec<(String, String)>) -> u64 {
	let mut n = 0u64;
	let utf8: Option<&str> = std::str::from_utf8(b).ok();
	macro_rules! routes {
		(native $T:ident, $TBuf:ident) => {{
			// the family's own string type
			if let Some(s) = inp(b) {
				crate::verdict!(n, probs, b, expect, "new", $T::new(s), payload);
				crate::verdict!(n, probs, b, expect, "try_from(&native)", <&$T>::try_from(s), payload);
				crate::verdict!(n, probs, b, expect, "Buf::new", $TBuf::new(own(b.to_vec()).unwrap()), payload);
				crate::verdict!(n, probs, b, expect, "Buf::try_from(owned)", $TBuf::try_from(own(b.to_vec()).unwrap()), payload);
			}
			routes!(common $T, $TBuf);
		}};
		(common $T:ident, $TBuf:ident) => {{
			use serde::Deserialize;
			if let Some(s) = utf8 {
				crate::verdict!(n, probs, b, expect, "Buf::from_str", s.parse::<$TBuf>(), payload);
				crate::verdict!(n, probs, b, expect, "serde:visit_borrowed_str", <&$T>::deserialize(Feed::BorrowedStr(s)), nopayload);
				crate::verdict!(n, probs, b, expect, "serde:visit_str", $TBuf::deserialize(Feed::Str(s.to_string())), nopayload);
				crate::verdict!(n, probs, b, expect, "serde:visit_string", $TBuf::deserialize(Feed::String(s.to_string())), nopayload);
				let js = serde_json::to_string(s).unwrap();
				crate::verdict!(n, probs, b, expect, "serde_json:from_str(owned)", serde_json::from_str::<$TBuf>(&js), nopayload);
				crate::verdict!(n, probs, b, expect, "serde_json:from_slice(owned)", serde_json::from_slice::<$TBuf>(js.as_bytes()), nopayload);
				if js.len() == s.len() + 2 {
					crate::verdict!(n, probs, b, expect, "serde_json:from_str(borrowed)", serde_json::from_str::<&$T>(&js), nopayload);
				}
			}
			crate::verdict!(n, probs, b, expect, "serde:visit_borrowed_bytes", <&$T>::deserialize(Feed::BorrowedBytes(b)), nopayload);
			crate::verdict!(n, probs, b, expect, "serde:visit_bytes", $TBuf::deserialize(Feed::Bytes(b.to_vec())), nopayload);
			crate::verdict!(n, probs, b, expect, "serde:visit_byte_buf", $TBuf::deserialize(Feed::ByteBuf(b.to_vec())), nopayload);
		}};
	}
	match kind {
		Kind::Ri => routes!(native Ri, RiBuf),
		Kind::RiRef => routes!(native RiRef, RiRefBuf),
		Kind::Scheme => routes!(common Scheme, SchemeBuf),
		Kind::Authority => routes!(native Authority, AuthorityBuf),
		Kind::UserInfo => routes!(native UserInfo, UserInfoBuf),
		Kind::Host => routes!(native Host, HostBuf),
		Kind::Port => routes!(common Port, PortBuf),
		Kind::Path => routes!(native Path, PathBuf),
		Kind::Segment => routes!(native Segment, SegmentBuf),
		Kind::Query => routes!(native Query, QueryBuf),
		Kind::Fragment => routes!(native Fragment, FragmentBuf),
	}
	// routes that exist for one family only (byte/str dual inputs, from_vec)
	extra_routes(kind, b, expect, probs, &mut n);
	n
}
