// C05: component setters change exactly the targeted component.

#[derive(Clone, Debug, PartialEq, Eq, Hash, PartialOrd, Ord)]
pub enum SOp {
	Scheme(Option<Vec<u8>>),
	Authority(Option<Vec<u8>>),
	Path(Vec<u8>),
	Query(Option<Vec<u8>>),
	Fragment(Option<Vec<u8>>),
}

impl SOp {
	pub fn name(&self) -> &'static str {
		match self {
			SOp::Scheme(_) => "set_scheme",
			SOp::Authority(_) => "set_authority",
			SOp::Path(_) => "set_path",
			SOp::Query(_) => "set_query",
			SOp::Fragment(_) => "set_fragment",
		}
	}
	pub fn to_json(&self) -> Value {
		use crate::engine::opt_bytes_json;
		match self {
			SOp::Scheme(x) => json!(["set_scheme", opt_bytes_json(x)]),
			SOp::Authority(x) => json!(["set_authority", opt_bytes_json(x)]),
			SOp::Path(x) => json!(["set_path", bytes_json(x)]),
			SOp::Query(x) => json!(["set_query", opt_bytes_json(x)]),
			SOp::Fragment(x) => json!(["set_fragment", opt_bytes_json(x)]),
		}
	}
	pub fn from_json(v: &Value) -> Option<SOp> {
		use crate::engine::json_opt_bytes;
		let a = v.as_array()?;
		Some(match a.first()?.as_str()? {
			"set_scheme" => SOp::Scheme(json_opt_bytes(a.get(1)?)?),
			"set_authority" => SOp::Authority(json_opt_bytes(a.get(1)?)?),
			"set_path" => SOp::Path(json_bytes(a.get(1)?)?),
			"set_query" => SOp::Query(json_opt_bytes(a.get(1)?)?),
			"set_fragment" => SOp::Fragment(json_opt_bytes(a.get(1)?)?),
			_ => return None,
		})
	}
	pub fn arg_present(&self) -> bool {
		match self {
			SOp::Scheme(x) | SOp::Authority(x) | SOp::Query(x) | SOp::Fragment(x) => x.is_some(),
			SOp::Path(_) => true,
		}
	}
	/// frame model: the targeted component replaced, everything else as before
	pub fn apply(&self, p: &syntax::Parts) -> syntax::Parts {
		let mut q = p.clone();
		match self {
			SOp::Scheme(x) => q.scheme = x.clone(),
			SOp::Authority(x) => q.authority = x.clone(),
			SOp::Path(x) => q.path = x.clone(),
			SOp::Query(x) => q.query = x.clone(),
			SOp::Fragment(x) => q.fragment = x.clone(),
		}
		q
	}
}

fn scheme_arg(b: &[u8]) -> &Scheme {
	Scheme::new(b).ok().expect("valid scheme argument")
}
fn authority_arg(b: &[u8]) -> &Authority {
	Authority::new(inp(b).expect("utf8")).ok().expect("valid authority argument")
}
fn path_arg(b: &[u8]) -> &Path {
	Path::new(inp(b).expect("utf8")).ok().expect("valid path argument")
}
fn query_arg(b: &[u8]) -> &Query {
	Query::new(inp(b).expect("utf8")).ok().expect("valid query argument")
}
fn fragment_arg(b: &[u8]) -> &Fragment {
	Fragment::new(inp(b).expect("utf8")).ok().expect("valid fragment argument")
}

pub fn apply_setter_riref(b: &mut RiRefBuf, op: &SOp) {
	match op {
		SOp::Scheme(x) => b.set_scheme(x.as_deref().map(scheme_arg)),
		SOp::Authority(x) => b.set_authority(x.as_deref().map(authority_arg)),
		SOp::Path(x) => b.set_path(path_arg(x)),
		SOp::Query(x) => b.set_query(x.as_deref().map(query_arg)),
		SOp::Fragment(x) => b.set_fragment(x.as_deref().map(fragment_arg)),
	}
}

/// `Scheme(None)` does not exist on the non-reference buffer.
pub fn apply_setter_ri(b: &mut RiBuf, op: &SOp) {
	match op {
		SOp::Scheme(Some(x)) => b.set_scheme(scheme_arg(x)),
		SOp::Scheme(None) => panic!("harness: set_scheme(None) is not an operation of the non-reference buffer"),
		SOp::Authority(x) => b.set_authority(x.as_deref().map(authority_arg)),
		SOp::Path(x) => b.set_path(path_arg(x)),
		SOp::Query(x) => b.set_query(x.as_deref().map(query_arg)),
		SOp::Fragment(x) => b.set_fragment(x.as_deref().map(fragment_arg)),
	}
}

/// The frame oracle. `after` must equal `want`, or differ from it only by one of the three
/// documented path adjustments, each under its documented precondition.
pub fn c05_frame_ok(want: &syntax::Parts, after: &syntax::Parts) -> Result<(), String> {
	if after.scheme != want.scheme {
		return Err("scheme".into());
	}
	if after.authority != want.authority {
		return Err("authority".into());
	}
	if after.query != want.query {
		return Err("query".into());
	}
	if after.fragment != want.fragment {
		return Err("fragment".into());
	}
	if after.path == want.path {
		return Ok(());
	}
	let has_auth = after.authority.is_some();
	let has_scheme = after.scheme.is_some();
	// '/' prefix: authority present and the requested path relative (an empty path next to an
	// authority may read back as "" or "/")
	if has_auth && !want.path.starts_with(b"/") {
		let mut p = b"/".to_vec();
		p.extend_from_slice(&want.path);
		if after.path == p {
			return Ok(());
		}
	}
	// '/.' prefix: no authority and the path begins with "//"
	if !has_auth && want.path.starts_with(b"//") {
		let mut p = b"/.".to_vec();
		p.extend_from_slice(&want.path);
		if after.path == p {
			return Ok(());
		}
	}
	// './' prefix: neither scheme nor authority and the first segment contains ':'
	if !has_auth && !has_scheme && !want.path.starts_with(b"/") && syntax::first_segment_has_colon(&want.path) {
		let mut p = b"./".to_vec();
		p.extend_from_slice(&want.path);
		if after.path == p {
			return Ok(());
		}
	}
	Err("path".into())
}

pub fn c05_input(text: &[u8], op: &SOp, buffer_type: &str) -> Value {
	json!({"fam": fam_name(), "text": bytes_json(text), "op": op.to_json(), "buffer_type": buffer_type})
}

/// One case: one setter call on one buffer. Runs on RiRefBuf, and on RiBuf when applicable.
pub fn c05_case(text: &[u8], op: &SOp, out: &mut Vec<Violation>) -> u64 {
	let before = syntax::split(text);
	let want = op.apply(&before);
	let mut n = 0;
	for use_ri in [false, true] {
		if use_ri && (before.scheme.is_none() || matches!(op, SOp::Scheme(None))) {
			continue;
		}
		let bt = if use_ri { "RiBuf" } else { "RiRefBuf" };
		let input = c05_input(text, op, bt);
		let mk = |what: &str| {
			ref_features(Violation::new("C05", "setter", what, input.clone()), &before)
				.feat("op", op.name())
				.feat("arg_present", op.arg_present())
				.feat("buffer_type", bt)
		};
		n += 1;
		let r = guard(|| {
			if use_ri {
				let mut b = ribuf_of(text).expect("valid buffer");
				apply_setter_ri(&mut b, op);
				(b.as_bytes().to_vec(), parts_of_ri_accessors(&b))
			} else {
				let mut b = rirefbuf_of(text).expect("valid buffer");
				apply_setter_riref(&mut b, op);
				(b.as_bytes().to_vec(), parts_of_riref_accessors(&b))
			}
		});
		// the same call on a buffer with spare capacity (no reallocation on growth)
		let r_spare = guard(|| {
			if use_ri {
				let mut b = ribuf_spare(text).expect("valid buffer");
				apply_setter_ri(&mut b, op);
				b.as_bytes().to_vec()
			} else {
				let mut b = rirefbuf_spare(text).expect("valid buffer");
				apply_setter_riref(&mut b, op);
				b.as_bytes().to_vec()
			}
		});
		if let (Guard::Ok((t, _)), g2) = (&r, &r_spare) {
			match g2 {
				Guard::Ok(t2) if t2 == t => {}
				Guard::Ok(t2) => out.push(mk("spare-capacity").obs(format!("{:?}", lossy(t2))).exp(format!("{:?} (exact-capacity buffer)", lossy(t)))),
				Guard::Panic(pm) => out.push(mk("panic").feat("panic_at", panic_site(pm)).obs(format!("spare capacity: panic: {pm}")).exp("no panic")),
			}
		}
		match r {
			Guard::Ok((t, acc)) => {
				let kind = if use_ri { Kind::Ri } else { Kind::RiRef };
				if !valid(kind, &t) {
					out.push(mk("valid").obs(format!("{:?}", lossy(&t))).exp("a valid buffer of the same type"));
					continue;
				}
				let after = syntax::split(&t);
				if acc != after {
					out.push(mk("read-back").obs(fmt_parts(&acc)).exp(fmt_parts(&after)));
				}
				if let Err(which) = c05_frame_ok(&want, &after) {
					out.push(
						mk("frame")
							.feat("component_changed", which)
							.obs(format!("{:?}: {}", lossy(&t), fmt_parts(&after)))
							.exp(format!("{} (up to the documented path adjustments)", fmt_parts(&want))),
					);
				}
			}
			Guard::Panic(pm) => out.push(mk("panic").feat("panic_at", panic_site(&pm)).obs(format!("panic: {pm}")).exp("no panic")),
		}
	}
	n
}

pub fn c05_replay(input: &Value) -> Vec<Violation> {
	let mut out = Vec::new();
	if let (Some(t), Some(op)) = (json_bytes(&input["text"]), SOp::from_json(&input["op"])) {
		let want_bt = input["buffer_type"].as_str().unwrap_or("").to_string();
		let mut all = Vec::new();
		c05_case(&t, &op, &mut all);
		for v in all {
			if v.features.get("buffer_type").map(|s| s.as_str()) == Some(want_bt.as_str()) || want_bt.is_empty() {
				out.push(v);
			}
		}
	}
	out
}
