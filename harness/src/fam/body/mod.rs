// Family-generic adapters over the library under test. Compiled once per family (see ../mod.rs).
// Everything here takes raw bytes and returns owned observations, so that drivers and
// reference models never depend on the family's string type.

#[allow(unused_imports)]
use crate::engine::{bytes_json, guard, json_bytes, lossy, opt_lossy, panic_site, Guard, Report, Violation};
#[allow(unused_imports)]
use crate::fam::{Family, Kind};
#[allow(unused_imports)]
use crate::model::{pathlist, syntax};
#[allow(unused_imports)]
use serde_json::{json, Value};

pub fn fam_name() -> &'static str {
	FAMILY.name()
}

/// Verdict of the borrowed checked constructor of the given kind.
pub fn valid(kind: Kind, b: &[u8]) -> bool {
	let s = match inp(b) {
		Some(s) => s,
		None => return false,
	};
	match kind {
		Kind::Ri => Ri::new(s).is_ok(),
		Kind::RiRef => RiRef::new(s).is_ok(),
		Kind::Scheme => Scheme::new(s).is_ok(),
		Kind::Authority => Authority::new(s).is_ok(),
		Kind::UserInfo => UserInfo::new(s).is_ok(),
		Kind::Host => Host::new(s).is_ok(),
		Kind::Port => Port::new(s).is_ok(),
		Kind::Path => Path::new(s).is_ok(),
		Kind::Segment => Segment::new(s).is_ok(),
		Kind::Query => Query::new(s).is_ok(),
		Kind::Fragment => Fragment::new(s).is_ok(),
	}
}

fn ob<T: ?Sized + AsRef<[u8]>>(x: Option<&T>) -> Option<Vec<u8>> {
	x.map(|v| v.as_ref().to_vec())
}

include!("c12.rs");
include!("c02.rs");
include!("c01.rs");
include!("c09.rs");
include!("c10.rs");
include!("c11.rs");
include!("c05.rs");
include!("c04.rs");
include!("c06.rs");
include!("c07.rs");
include!("c19.rs");
include!("c15.rs");
include!("c20.rs");
include!("c14.rs");
include!("c13.rs");
