//! Counting global allocator (per-thread counter) used as the monitor of C20.

use std::alloc::{GlobalAlloc, Layout, System};
use std::cell::Cell;

thread_local! {
	static ALLOCS: Cell<u64> = const { Cell::new(0) };
}

pub struct Counting;

unsafe impl GlobalAlloc for Counting {
	unsafe fn alloc(&self, l: Layout) -> *mut u8 {
		let _ = ALLOCS.try_with(|c| c.set(c.get() + 1));
		System.alloc(l)
	}
	unsafe fn dealloc(&self, p: *mut u8, l: Layout) {
		System.dealloc(p, l)
	}
	unsafe fn alloc_zeroed(&self, l: Layout) -> *mut u8 {
		let _ = ALLOCS.try_with(|c| c.set(c.get() + 1));
		System.alloc_zeroed(l)
	}
	unsafe fn realloc(&self, p: *mut u8, l: Layout, n: usize) -> *mut u8 {
		let _ = ALLOCS.try_with(|c| c.set(c.get() + 1));
		System.realloc(p, l, n)
	}
}

/// Number of allocation calls (alloc, alloc_zeroed, realloc) made by this thread so far.
#[inline]
pub fn count() -> u64 {
	ALLOCS.with(|c| c.get())
}
