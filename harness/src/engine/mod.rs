//! Shared exploration plumbing: run context, violation records, aggregation, evidence,
//! known-findings matching, panic capture, parallel sharding.

use serde_json::{json, Map, Value};
use std::cell::RefCell;
use std::collections::BTreeMap;
use std::panic::{catch_unwind, AssertUnwindSafe};
use std::time::{Duration, Instant};

pub mod alloc;
pub mod enumerate;

#[derive(Clone, Copy, PartialEq, Eq, Debug)]
pub enum Tier {
	Quick,
	Thorough,
}

impl Tier {
	pub fn name(self) -> &'static str {
		match self {
			Tier::Quick => "quick",
			Tier::Thorough => "thorough",
		}
	}
}

#[derive(Clone)]
pub struct Ctx {
	pub tier: Tier,
	pub seed: u64,
	pub threads: usize,
	pub start: Instant,
	pub deadline: Instant,
	/// root of /verif
	pub root: std::path::PathBuf,
}

impl Ctx {
	pub fn quick(&self) -> bool {
		self.tier == Tier::Quick
	}
	pub fn out_of_time(&self) -> bool {
		Instant::now() >= self.deadline
	}
	pub fn pick<T>(&self, quick: T, thorough: T) -> T {
		if self.quick() {
			quick
		} else {
			thorough
		}
	}
}

/// One violating case. `input` must be sufficient for `--replay` to re-execute the case with
/// no exploration.
#[derive(Clone, Debug)]
pub struct Violation {
	pub property: &'static str,
	/// sub-check identifier, stable (used by replay dispatch and by known-findings matchers)
	pub check: String,
	/// operation / accessor / oracle clause that failed
	pub op: String,
	/// features computed from the reference model only (never from the code under test),
	/// used to build tight known-finding signatures
	pub features: BTreeMap<String, String>,
	pub input: Value,
	pub observed: String,
	pub expected: String,
}

impl Violation {
	pub fn new(property: &'static str, check: &str, op: &str, input: Value) -> Self {
		Violation {
			property,
			check: check.to_string(),
			op: op.to_string(),
			features: BTreeMap::new(),
			input,
			observed: String::new(),
			expected: String::new(),
		}
	}
	pub fn feat(mut self, k: &str, v: impl ToString) -> Self {
		self.features.insert(k.to_string(), v.to_string());
		self
	}
	pub fn obs(mut self, o: impl ToString) -> Self {
		self.observed = o.to_string();
		self
	}
	pub fn exp(mut self, e: impl ToString) -> Self {
		self.expected = e.to_string();
		self
	}
	pub fn signature(&self) -> String {
		let mut s = format!("{}|{}|{}", self.property, self.check, self.op);
		for (k, v) in &self.features {
			s.push_str(&format!("|{k}={v}"));
		}
		s
	}
	pub fn to_json(&self) -> Value {
		json!({
			"property": self.property,
			"check": self.check,
			"op": self.op,
			"features": self.features,
			"input": self.input,
			"observed": self.observed,
			"expected": self.expected,
		})
	}
}

pub const EXAMPLES_PER_SIGNATURE: usize = 3;

#[derive(Default, Clone)]
pub struct SigBucket {
	pub count: u64,
	pub examples: Vec<Violation>,
}

/// Result of one exploration (or of one shard of it; shards are merged in index order).
#[derive(Default, Clone)]
pub struct Report {
	pub evaluations: u64,
	pub distinct_nontrivial: u64,
	pub states: u64,
	pub transitions: u64,
	pub traces: u64,
	pub samples: Vec<Value>,
	pub counters: BTreeMap<String, u64>,
	pub info: Map<String, Value>,
	pub buckets: BTreeMap<String, SigBucket>,
	pub exhaustive: bool,
	pub caps_hit: Vec<String>,
	pub assumptions: Vec<String>,
	pub rule: String,
}

impl Report {
	pub fn new() -> Self {
		Report {
			exhaustive: true,
			..Default::default()
		}
	}
	pub fn count(&mut self, k: &str, n: u64) {
		*self.counters.entry(k.to_string()).or_insert(0) += n;
	}
	pub fn violate(&mut self, v: Violation) {
		let b = self.buckets.entry(v.signature()).or_default();
		b.count += 1;
		if b.examples.len() < EXAMPLES_PER_SIGNATURE {
			b.examples.push(v);
		}
	}
	pub fn sample(&mut self, v: Value) {
		if self.samples.len() < 12 {
			self.samples.push(v);
		}
	}
	pub fn violation_count(&self) -> u64 {
		self.buckets.values().map(|b| b.count).sum()
	}
	pub fn cap(&mut self, what: impl ToString) {
		self.exhaustive = false;
		self.caps_hit.push(what.to_string());
	}
	/// Merge another (later-index) shard into this one.
	pub fn merge(&mut self, o: Report) {
		self.evaluations += o.evaluations;
		self.distinct_nontrivial += o.distinct_nontrivial;
		self.states += o.states;
		self.transitions += o.transitions;
		self.traces += o.traces;
		for s in o.samples {
			self.sample(s);
		}
		for (k, n) in o.counters {
			*self.counters.entry(k).or_insert(0) += n;
		}
		for (k, v) in o.info {
			self.info.entry(k).or_insert(v);
		}
		for (k, b) in o.buckets {
			let e = self.buckets.entry(k).or_default();
			e.count += b.count;
			for x in b.examples {
				if e.examples.len() < EXAMPLES_PER_SIGNATURE {
					e.examples.push(x);
				}
			}
		}
		self.exhaustive &= o.exhaustive;
		self.caps_hit.extend(o.caps_hit);
		for a in o.assumptions {
			if !self.assumptions.contains(&a) {
				self.assumptions.push(a);
			}
		}
		if self.rule.is_empty() {
			self.rule = o.rule;
		}
	}
}

// ---------------------------------------------------------------------------------------------
// panic capture

thread_local! {
	static LAST_PANIC: RefCell<Option<String>> = const { RefCell::new(None) };
}

pub fn install_panic_hook() {
	std::panic::set_hook(Box::new(|info| {
		let loc = info
			.location()
			.map(|l| {
				let f = l.file();
				// keep the path stable across machines: strip registry/toolchain prefixes
				let f = f
					.rsplit_once("/src/")
					.map(|(a, b)| {
						let krate = a.rsplit('/').next().unwrap_or("");
						format!("{krate}/src/{b}")
					})
					.unwrap_or_else(|| f.to_string());
				format!("{}:{}", f, l.line())
			})
			.unwrap_or_default();
		let msg = if let Some(s) = info.payload().downcast_ref::<&str>() {
			s.to_string()
		} else if let Some(s) = info.payload().downcast_ref::<String>() {
			s.clone()
		} else {
			"<non-string panic>".to_string()
		};
		LAST_PANIC.with(|p| *p.borrow_mut() = Some(format!("{loc}: {msg}")));
	}));
}

/// Outcome of a guarded call.
pub enum Guard<T> {
	Ok(T),
	Panic(String),
}

impl<T> Guard<T> {
	pub fn ok(self) -> Option<T> {
		match self {
			Guard::Ok(t) => Some(t),
			Guard::Panic(_) => None,
		}
	}
}

pub fn guard<T>(f: impl FnOnce() -> T) -> Guard<T> {
	match catch_unwind(AssertUnwindSafe(f)) {
		Ok(t) => Guard::Ok(t),
		Err(_) => {
			let m = LAST_PANIC
				.with(|p| p.borrow_mut().take())
				.unwrap_or_else(|| "<panic>".to_string());
			Guard::Panic(m)
		}
	}
}

/// Shorten a panic description to `file:line` + first words, for use as a feature value.
pub fn panic_site(m: &str) -> String {
	// "crate/src/file.rs:LINE: message"
	let mut it = m.splitn(3, ':');
	let f = it.next().unwrap_or("");
	let l = it.next().unwrap_or("");
	format!("{f}:{l}")
}

// ---------------------------------------------------------------------------------------------
// sharded parallel execution

/// Run `n` shards on `ctx.threads` worker threads; merge reports in shard-index order.
pub fn run_shards<F>(ctx: &Ctx, n: usize, f: F) -> Report
where
	F: Fn(usize) -> Report + Sync,
{
	use std::sync::atomic::{AtomicUsize, Ordering};
	use std::sync::Mutex;
	let next = AtomicUsize::new(0);
	let results: Mutex<Vec<Option<Report>>> = Mutex::new((0..n).map(|_| None).collect());
	let rot = if n > 0 { (ctx.seed as usize) % n } else { 0 };
	std::thread::scope(|s| {
		for _ in 0..ctx.threads.max(1).min(n.max(1)) {
			s.spawn(|| loop {
				let i = next.fetch_add(1, Ordering::SeqCst);
				if i >= n {
					break;
				}
				// the seed only rotates the order in which shards are scheduled
				let idx = (i + rot) % n;
				let r = f(idx);
				results.lock().unwrap()[idx] = Some(r);
			});
		}
	});
	let mut out = Report::new();
	for r in results.into_inner().unwrap().into_iter() {
		out.merge(r.expect("shard did not complete"));
	}
	out
}

pub fn elapsed_s(ctx: &Ctx) -> f64 {
	ctx.start.elapsed().as_secs_f64()
}

pub fn budget(ctx: &Ctx, quick_s: u64, thorough_s: u64) -> Duration {
	Duration::from_secs(ctx.pick(quick_s, thorough_s))
}

// ---------------------------------------------------------------------------------------------
// small helpers

pub fn lossy(b: &[u8]) -> String {
	String::from_utf8_lossy(b).into_owned()
}

pub fn opt_lossy(b: &Option<Vec<u8>>) -> String {
	match b {
		None => "<none>".to_string(),
		Some(b) => format!("{:?}", lossy(b)),
	}
}

/// JSON encoding of arbitrary bytes: a string when UTF-8, else {"hex": ".."}.
pub fn bytes_json(b: &[u8]) -> Value {
	match std::str::from_utf8(b) {
		Ok(s) => Value::String(s.to_string()),
		Err(_) => json!({ "hex": b.iter().map(|x| format!("{x:02x}")).collect::<String>() }),
	}
}

pub fn json_bytes(v: &Value) -> Option<Vec<u8>> {
	match v {
		Value::String(s) => Some(s.as_bytes().to_vec()),
		Value::Object(m) => {
			let h = m.get("hex")?.as_str()?;
			let mut out = Vec::new();
			let hb = h.as_bytes();
			if hb.len() % 2 != 0 {
				return None;
			}
			for i in (0..hb.len()).step_by(2) {
				out.push(u8::from_str_radix(&h[i..i + 2], 16).ok()?);
			}
			Some(out)
		}
		_ => None,
	}
}

pub fn opt_bytes_json(b: &Option<Vec<u8>>) -> Value {
	match b {
		None => Value::Null,
		Some(b) => bytes_json(b),
	}
}

pub fn json_opt_bytes(v: &Value) -> Option<Option<Vec<u8>>> {
	if v.is_null() {
		Some(None)
	} else {
		json_bytes(v).map(Some)
	}
}

/// FNV-1a, used wherever a fixed-key deterministic hash is needed by the harness itself.
pub fn fnv(b: &[u8]) -> u64 {
	let mut h: u64 = 0xcbf29ce484222325;
	for x in b {
		h ^= *x as u64;
		h = h.wrapping_mul(0x100000001b3);
	}
	h
}
