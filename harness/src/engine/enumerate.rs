//! Odometer enumeration of finite domains.

/// Calls `f` with every sequence of length exactly `len` over `0..k` (as indices), in
/// lexicographic order. `f` returns `false` to stop.
pub fn for_each_seq(k: usize, len: usize, mut f: impl FnMut(&[usize]) -> bool) {
	let mut idx = vec![0usize; len];
	if k == 0 && len > 0 {
		return;
	}
	loop {
		if !f(&idx) {
			return;
		}
		let mut i = len;
		loop {
			if i == 0 {
				return;
			}
			i -= 1;
			idx[i] += 1;
			if idx[i] < k {
				break;
			}
			idx[i] = 0;
		}
	}
}

/// Every sequence of length `0..=max` over `0..k`, shortest first.
pub fn for_each_seq_upto(k: usize, max: usize, mut f: impl FnMut(&[usize]) -> bool) {
	for len in 0..=max {
		let mut go = true;
		for_each_seq(k, len, |s| {
			go = f(s);
			go
		});
		if !go {
			return;
		}
	}
}

/// Number of sequences of length 0..=max over k symbols.
pub fn count_upto(k: u64, max: u32) -> u64 {
	(0..=max).map(|l| k.pow(l)).sum()
}

/// Mixed-radix odometer: every tuple with `t[i] < radix[i]`.
pub fn for_each_tuple(radix: &[usize], mut f: impl FnMut(&[usize]) -> bool) {
	if radix.iter().any(|r| *r == 0) {
		return;
	}
	let mut idx = vec![0usize; radix.len()];
	loop {
		if !f(&idx) {
			return;
		}
		let mut i = radix.len();
		loop {
			if i == 0 {
				return;
			}
			i -= 1;
			idx[i] += 1;
			if idx[i] < radix[i] {
				break;
			}
			idx[i] = 0;
		}
	}
}
